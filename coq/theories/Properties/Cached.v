(** Cached -- the cache-free theorems C01, C02/C10, C03, C12, C14, C15, C18, C20 in the
    configuration the real entry points use: [m_nocache = false], i.e. duplicate sub-formulae
    are marked by [mark_duplicates] and the sub-formula cache is in use.
    Statements only; the proofs are in Proofs/CachedFacts.v.

    How.  C04b / C04c prove that, with OR without duplicate marking,
      check_trees w k m ts [] []   = mapM (singleS w k m) ts            (plain modes)
      check_trees w k m ts cp cd   = mapM (singleX w k cp cd m) ts      (extended mode)
    where [singleS] / [singleX] are the cache-free evaluators [peval] / [peval_ext] followed by
    the sanitiser.  The cache-free theorems are applied formula by formula.  Every lemma of
    CachedFacts.v holds for both values of [m_nocache]; here they are stated for
    [m_nocache = false].

    Side conditions.
    - [world_ok w] (NoPanic.v; [Cached_world_ok_def]): the hypotheses of C01_check_trees_correct.
    - check_trees level, plain: [good ea ext G names t] (C04b; [C04_good_def]) -- what the cache
      invariant needs: plain, supported, known propositions, parser-producible names, named by
      depth; closedness is [depth_named 0 t].  Extended: [topx] (C04c; [C04_topx_def]) and the
      context hypotheses of C02 ([ctx_ignores_copies], [wild_sets_ok], [dom_sets_ok]).
    - model_check level: NO tree-level hypothesis; the trees are those [validate_all] returns
      ([parse_and_minimize] of the strings), which satisfy the side conditions
      ([C04_validated_good], [C04_validated_topx]).  Extended: the user's context sets are
      shaped over colours and states; [Gamma] is membership in them ([Gamma_of], [ctx_lifted]).

    Scope / what is partial.
    - [m_unsafe_ex = true] is covered for C14 in the plain modes (dirty AND sanitised results:
      more than the cache-free C14) and for C18; the other originals are about the real
      self-loop set.  The extended-mode statements assume [m_unsafe_ex = false] (the scope of
      the cache invariant for extended formulae, C04c part B).
    - C03 extended: "subset of the unit" is FALSE for extended formulae
      ([Cached_C03_within_unit_ext_refuted]: a wild-card set is returned as it is); what holds is
      exactness inside the unit ([Cached_C03_within_unit_ext_partial]).  Closed results ignore the
      spare copies everywhere (stronger than C10_closed_result_ignores_copies).
    - C12 extended: the results with and without pattern shortcuts have the same members INSIDE
      the unit ([Cached_C12_patterns_irrelevant_ext_partial]); equality of the decision trees
      outside the unit is not shown (the cache-free C02 does not show it either).
    - C14 extended: complete, sanitised results included.  The ingredient that was missing in
      the cache-free development is proved in CachedFacts.v (section 2b): the raw result of a
      closed EXTENDED formula does not read the spare copies ANYWHERE (C10 only had "inside the
      unit"), so the sanitiser never panics ([Cached_closed_ext_result_ignores_copies]); as a
      by-product C15 "sanitised = raw" holds for extended formulae. *)
From HCTL Require Import Base Syntax Tokenizer Parser Preprocess Canon MarkDup TT Ops Eval Pipeline Kripke HCTL.
From HCTL Require Import EvalPure Main LayoutFacts PrepFacts NoPanic CacheFacts CacheGen.
From HCTL Require Import ExtSem ExtFacts ExtEval CacheExt CacheExtEntry Unsafe ColourFacts IndepFacts.
From HCTL Require Import CachedFacts.

(** * 0. definitions restated *)

Theorem Cached_world_ok_def :
  forall w : world, world_ok w <->
    (List.Forall (shaped (Lpn (w_p w) (w_n w))) (w_upd w)
     /\ shaped (Lpn (w_p w) (w_n w)) (w_unit w)
     /\ (forall v v', (forall j, v (TP j) = v' (TP j)) ->
           mem (Lpn (w_p w) (w_n w)) (w_unit w) v = mem (Lpn (w_p w) (w_n w)) (w_unit w) v')
     /\ length (w_names w) <= w_n w).
Proof. exact (fun w => conj (fun H => H) (fun H => H)). Qed.

(** the meaning of a context label at the string entry point: membership in the user's set *)
Theorem Cached_Gamma_def :
  forall (w : world) k ctx l v,
    Gamma_of (genv_of w k) (ctx_lifted w k ctx) l v <->
    match alookup str_eqb l (map (fun ps => (fst ps, lift w k (snd ps))) ctx) with
    | Some s => mem (g_L (genv_of w k)) s v = true
    | None => False
    end.
Proof. exact (fun w k ctx l v => conj (fun H => H) (fun H => H)). Qed.

Theorem Cached_labels_def :
  forall ctx t,
    (labels_known ctx t <->
       (forall l, has_wild l t \/ has_dom l t -> alookup str_eqb l ctx <> None))
    /\ (label_missing ctx t <->
          (exists l, (has_wild l t \/ has_dom l t) /\ alookup str_eqb l ctx = None)).
Proof. exact (fun ctx t => conj (conj (fun H => H) (fun H => H)) (conj (fun H => H) (fun H => H))). Qed.

(** verdicts on a formula string of the extended syntax: the checks of [validate_all] in
    their order -- tokenizer, parser, scoping, number of spare copies, context labels *)
Theorem Cached_acceptedx_def :
  forall ea props k ctx f,
    acceptedx ea props k ctx f <->
    (exists t, parse_formula ea true f = Ok t /\ tree_ok props k t /\ labels_known ctx t).
Proof. exact (fun ea props k ctx f => conj (fun H => H) (fun H => H)). Qed.

Theorem Cached_rejectedx_def :
  forall ea props k ctx f e,
    rejectedx ea props k ctx f e <->
    ((tokenize ea true f = Err ELex /\ e = ELex)
     \/ (exists ts, tokenize ea true f = Ok ts /\ parse_tokens ts = Err EParse /\ e = EParse)
     \/ (exists t, parse_formula ea true f = Ok t
                   /\ (tree_rejected props k t e
                       \/ (tree_ok props k t /\ label_missing ctx t /\ e = EMissingContext)))).
Proof. exact (fun ea props k ctx f e => conj (fun H => H) (fun H => H)). Qed.

(** the network instantiated by the colour [c] (every parameter level of every update table
    fixed to the value [c] gives it), with unit set [u'] *)
Theorem Cached_colour_world_def :
  forall c u' (w : world),
    colour_world c u' w =
    {| w_p := w_p w; w_n := w_n w; w_names := w_names w;
       w_upd := map (fix_colour c (Lpn (w_p w) (w_n w))) (w_upd w); w_unit := u' |}.
Proof. reflexivity. Qed.

Theorem Cached_colour_world_genv :
  forall c u' (w : world) k, genv_of (colour_world c u' w) k = instantiate c (genv_of w k).
Proof. exact genv_of_colour_world. Qed.
Print Assumptions Cached_colour_world_genv.

(** the trees [validate_all] returns are the preprocessed formulae, position by position *)
Theorem Cached_validate_all_parsed :
  forall ea ext props k ctx fs ts cp cd,
    validate_all ea ext props k ctx fs = Ok (ts, cp, cd) ->
    List.Forall2 (fun f t => parse_and_minimize ea ext props f = Ok t) fs ts.
Proof. exact validate_all_parsed. Qed.
Print Assumptions Cached_validate_all_parsed.

(** ... and, in the plain syntax, good and closed *)
Theorem Cached_validated_good_closed :
  forall ea (w : world) k ctx fs r,
    validate_all ea false (w_names w) k ctx fs = Ok r ->
    exists ts, r = (ts, [], [])
      /\ List.Forall (fun t => good ea false (genv_of w k) (w_names w) t /\ depth_named 0 t) ts
      /\ List.Forall2 (fun f t => parse_and_minimize ea false (w_names w) f = Ok t) fs ts.
Proof. exact validate_all_vplain. Qed.
Print Assumptions Cached_validated_good_closed.

Theorem Cached_closed_by_depth :
  forall G t, depth_named 0 t -> closed_copies G t.
Proof. exact depth_named_closed_copies. Qed.
Print Assumptions Cached_closed_by_depth.

(** * 1. C01: the results are exactly the satisfying valuations of the unit *)

Theorem Cached_C01_check_trees_correct :
  forall ea ext (w : world) (k : nat), world_ok w ->
  forall (Gamma : str -> val -> Prop) m ts rs,
    m_ext m = false -> m_sanitize m = false -> m_unsafe_ex m = false -> m_nocache m = false ->
    List.Forall (good ea ext (genv_of w k) (w_names w)) ts ->
    check_trees w k m ts [] [] = Ok rs ->
    List.Forall2 (fun t R => forall v,
       mem (g_L (genv_of w k)) R v = true <->
       (mem (g_L (genv_of w k)) (unit_of w k) v = true /\ sat (genv_of w k) (w_names w) Gamma t v)) ts rs.
Proof. exact cached_C01_check_trees_on. Qed.
Print Assumptions Cached_C01_check_trees_correct.

(** the string entry point, whatever the strings *)
Theorem Cached_C01_model_check_correct :
  forall ea (w : world) (k : nat), world_ok w ->
  forall (Gamma : str -> val -> Prop) m ctx fs rs,
    m_ext m = false -> m_sanitize m = false -> m_unsafe_ex m = false -> m_nocache m = false ->
    model_check ea w k m ctx fs = Ok rs ->
    exists ts,
      List.Forall2 (fun f t => parse_and_minimize ea false (w_names w) f = Ok t) fs ts
      /\ List.Forall2 (fun t R => forall v,
           mem (g_L (genv_of w k)) R v = true <->
           (mem (g_L (genv_of w k)) (unit_of w k) v = true /\ sat (genv_of w k) (w_names w) Gamma t v)) ts rs.
Proof. exact cached_C01_model_check_on. Qed.
Print Assumptions Cached_C01_model_check_correct.

(** * 2. C02 / C10: extended formulae *)

Theorem Cached_C02_check_trees_correct :
  forall ea (w : world) (k : nat), world_ok w ->
  forall cprops cdoms (Gamma : str -> val -> Prop),
    ctx_ignores_copies Gamma ->
    wild_sets_ok (genv_of w k) Gamma (wild_of w k cprops) ->
    dom_sets_ok (genv_of w k) Gamma (doms_of w k cprops cdoms) ->
  forall m ts rs,
    m_ext m = true -> m_sanitize m = false -> m_unsafe_ex m = false -> m_nocache m = false ->
    List.Forall (topx ea (genv_of w k) (w_names w) (wild_of w k cprops) (doms_of w k cprops cdoms)) ts ->
    check_trees w k m ts cprops cdoms = Ok rs ->
    List.Forall2 (fun t R => shaped (g_L (genv_of w k)) R /\
       forall v, mem (g_L (genv_of w k)) (unit_of w k) v = true ->
                 (mem (g_L (genv_of w k)) R v = true <-> sat (genv_of w k) (w_names w) Gamma t v)) ts rs.
Proof. exact cached_C02_check_trees_on. Qed.
Print Assumptions Cached_C02_check_trees_correct.

(** the extended string entry point: [Gamma] is membership in the user's context sets *)
Theorem Cached_C02_model_check_correct :
  forall ea (w : world) (k : nat), world_ok w ->
  forall ctx, (forall l s, alookup str_eqb l ctx = Some s -> shaped (Lpn (w_p w) (w_n w)) s) ->
  forall m fs rs,
    m_ext m = true -> m_sanitize m = false -> m_unsafe_ex m = false -> m_nocache m = false ->
    model_check ea w k m ctx fs = Ok rs ->
    exists ts,
      List.Forall2 (fun f t => parse_and_minimize ea true (w_names w) f = Ok t) fs ts
      /\ List.Forall2 (fun t R => shaped (g_L (genv_of w k)) R /\
           forall v, mem (g_L (genv_of w k)) (unit_of w k) v = true ->
             (mem (g_L (genv_of w k)) R v = true <->
              sat (genv_of w k) (w_names w) (Gamma_of (genv_of w k) (ctx_lifted w k ctx)) t v)) ts rs.
Proof. exact cached_C02_model_check_on. Qed.
Print Assumptions Cached_C02_model_check_correct.

(** C10_check_trees_ext_empty_correct: the extended entry point with empty contexts *)
Theorem Cached_C10_check_trees_ext_empty_correct :
  forall ea ext (w : world) (k : nat), world_ok w ->
  forall (Gamma : str -> val -> Prop) m ts rs,
    m_ext m = true -> m_sanitize m = false -> m_unsafe_ex m = false -> m_nocache m = false ->
    List.Forall (good ea ext (genv_of w k) (w_names w)) ts ->
    check_trees w k m ts [] [] = Ok rs ->
    List.Forall2 (fun t R => forall v,
       mem (g_L (genv_of w k)) R v = true <->
       (mem (g_L (genv_of w k)) (unit_of w k) v = true /\ sat (genv_of w k) (w_names w) Gamma t v)) ts rs.
Proof. exact cached_C10_check_trees_ext_empty_on. Qed.
Print Assumptions Cached_C10_check_trees_ext_empty_correct.

(** * 3. C03: results stay inside the unit; closed results ignore the spare copies *)

Theorem Cached_C03_within_unit :
  forall ea ext (w : world) (k : nat), world_ok w ->
  forall m ts rs,
    m_ext m = false -> m_sanitize m = false -> m_unsafe_ex m = false -> m_nocache m = false ->
    List.Forall (good ea ext (genv_of w k) (w_names w)) ts ->
    check_trees w k m ts [] [] = Ok rs ->
    List.Forall (fun R => forall v,
       mem (g_L (genv_of w k)) R v = true -> mem (g_L (genv_of w k)) (unit_of w k) v = true) rs.
Proof. exact cached_C03_within_unit_on. Qed.
Print Assumptions Cached_C03_within_unit.

Theorem Cached_C03_closed_ignores_copies :
  forall ea ext (w : world) (k : nat), world_ok w ->
  forall m ts rs,
    m_ext m = false -> m_sanitize m = false -> m_unsafe_ex m = false -> m_nocache m = false ->
    List.Forall (good ea ext (genv_of w k) (w_names w)) ts -> List.Forall (depth_named 0) ts ->
    check_trees w k m ts [] [] = Ok rs ->
    List.Forall (fun R => forall v v',
       (forall j, v (TP j) = v' (TP j)) -> (forall i, v (TS i) = v' (TS i)) ->
       mem (g_L (genv_of w k)) R v = mem (g_L (genv_of w k)) R v') rs.
Proof. exact cached_C03_closed_ignores_copies_on. Qed.
Print Assumptions Cached_C03_closed_ignores_copies.

(** both, for the string entry point *)
Theorem Cached_C03_model_check :
  forall ea (w : world) (k : nat), world_ok w ->
  forall m ctx fs rs,
    m_ext m = false -> m_sanitize m = false -> m_unsafe_ex m = false -> m_nocache m = false ->
    model_check ea w k m ctx fs = Ok rs ->
    List.Forall (fun R =>
        (forall v, mem (g_L (genv_of w k)) R v = true -> mem (g_L (genv_of w k)) (unit_of w k) v = true)
        /\ (forall v v', (forall j, v (TP j) = v' (TP j)) -> (forall i, v (TS i) = v' (TS i)) ->
              mem (g_L (genv_of w k)) R v = mem (g_L (genv_of w k)) R v')) rs.
Proof. exact cached_C03_model_check_on. Qed.
Print Assumptions Cached_C03_model_check.

(** extended formulae: what holds instead of "subset of the unit" -- the part of the result
    inside the unit is exactly the set of satisfying valuations of the unit *)
Theorem Cached_C03_within_unit_ext_partial :
  forall ea (w : world) (k : nat), world_ok w ->
  forall cprops cdoms (Gamma : str -> val -> Prop),
    ctx_ignores_copies Gamma ->
    wild_sets_ok (genv_of w k) Gamma (wild_of w k cprops) ->
    dom_sets_ok (genv_of w k) Gamma (doms_of w k cprops cdoms) ->
  forall m ts rs,
    m_ext m = true -> m_sanitize m = false -> m_unsafe_ex m = false -> m_nocache m = false ->
    List.Forall (topx ea (genv_of w k) (w_names w) (wild_of w k cprops) (doms_of w k cprops cdoms)) ts ->
    check_trees w k m ts cprops cdoms = Ok rs ->
    List.Forall2 (fun t R => forall v,
       mem (g_L (genv_of w k)) (tand R (unit_of w k)) v = true <->
       (mem (g_L (genv_of w k)) (unit_of w k) v = true /\ sat (genv_of w k) (w_names w) Gamma t v)) ts rs.
Proof. exact cached_C03_ext_in_unit_on. Qed.
Print Assumptions Cached_C03_within_unit_ext_partial.

(** closed extended formulae ([topx] includes [depth_named 0]): the result does not read the
    spare copies (inside AND outside the unit) *)
Theorem Cached_C03_closed_ignores_copies_ext :
  forall ea (w : world) (k : nat), world_ok w ->
  forall cprops cdoms (Gamma : str -> val -> Prop),
    ctx_ignores_copies Gamma ->
    wild_sets_ok (genv_of w k) Gamma (wild_of w k cprops) ->
    dom_sets_ok (genv_of w k) Gamma (doms_of w k cprops cdoms) ->
  forall m ts rs,
    m_ext m = true -> m_sanitize m = false -> m_unsafe_ex m = false -> m_nocache m = false ->
    List.Forall (topx ea (genv_of w k) (w_names w) (wild_of w k cprops) (doms_of w k cprops cdoms)) ts ->
    check_trees w k m ts cprops cdoms = Ok rs ->
    List.Forall (fun R => forall v v',
       (forall j, v (TP j) = v' (TP j)) -> (forall i, v (TS i) = v' (TS i)) ->
       mem (g_L (genv_of w k)) R v = mem (g_L (genv_of w k)) R v') rs.
Proof. exact cached_C03_ext_closed_ignores_copies_on. Qed.
Print Assumptions Cached_C03_closed_ignores_copies_ext.

Theorem Cached_C03_model_check_ext :
  forall ea (w : world) (k : nat), world_ok w ->
  forall ctx, (forall l s, alookup str_eqb l ctx = Some s -> shaped (Lpn (w_p w) (w_n w)) s) ->
  forall m fs rs,
    m_ext m = true -> m_sanitize m = false -> m_unsafe_ex m = false -> m_nocache m = false ->
    model_check ea w k m ctx fs = Ok rs ->
    (exists ts,
       List.Forall2 (fun f t => parse_and_minimize ea true (w_names w) f = Ok t) fs ts
       /\ List.Forall2 (fun t R => forall v,
            mem (g_L (genv_of w k)) (tand R (unit_of w k)) v = true <->
            (mem (g_L (genv_of w k)) (unit_of w k) v = true
             /\ sat (genv_of w k) (w_names w) (Gamma_of (genv_of w k) (ctx_lifted w k ctx)) t v)) ts rs)
    /\ List.Forall (fun R => forall v v',
          (forall j, v (TP j) = v' (TP j)) -> (forall i, v (TS i) = v' (TS i)) ->
          mem (g_L (genv_of w k)) R v = mem (g_L (genv_of w k)) R v') rs.
Proof. exact cached_C03_ext_model_check_on. Qed.
Print Assumptions Cached_C03_model_check_ext.

(** * 4. C12: the pattern shortcuts do not change the results *)

(** plain modes: the same outcome (equal decision trees), sanitised or dirty *)
Theorem Cached_C12_patterns_irrelevant :
  forall ea ext (w : world) (k : nat), world_ok w ->
  forall m m' ts,
    m_ext m = false -> m_ext m' = false -> m_unsafe_ex m = false -> m_unsafe_ex m' = false ->
    m_nocache m = false -> m_nocache m' = false -> m_sanitize m = m_sanitize m' ->
    m_nopatterns m = false -> m_nopatterns m' = true ->
    List.Forall (good ea ext (genv_of w k) (w_names w)) ts ->
    check_trees w k m ts [] [] = check_trees w k m' ts [] [].
Proof. exact cached_C12_check_trees_on. Qed.
Print Assumptions Cached_C12_patterns_irrelevant.

Theorem Cached_C12_patterns_irrelevant_model_check :
  forall ea (w : world) (k : nat), world_ok w ->
  forall m m' ctx fs,
    m_ext m = false -> m_ext m' = false -> m_unsafe_ex m = false -> m_unsafe_ex m' = false ->
    m_nocache m = false -> m_nocache m' = false -> m_sanitize m = m_sanitize m' ->
    m_nopatterns m = false -> m_nopatterns m' = true ->
    model_check ea w k m ctx fs = model_check ea w k m' ctx fs.
Proof. exact cached_C12_model_check_on. Qed.
Print Assumptions Cached_C12_patterns_irrelevant_model_check.

(** extended mode: the same members inside the unit *)
Theorem Cached_C12_patterns_irrelevant_ext_partial :
  forall ea (w : world) (k : nat), world_ok w ->
  forall cprops cdoms (Gamma : str -> val -> Prop),
    ctx_ignores_copies Gamma ->
    wild_sets_ok (genv_of w k) Gamma (wild_of w k cprops) ->
    dom_sets_ok (genv_of w k) Gamma (doms_of w k cprops cdoms) ->
  forall m m' ts rs rs',
    m_ext m = true -> m_ext m' = true -> m_sanitize m = false -> m_sanitize m' = false ->
    m_unsafe_ex m = false -> m_unsafe_ex m' = false -> m_nocache m = false -> m_nocache m' = false ->
    m_nopatterns m = false -> m_nopatterns m' = true ->
    List.Forall (topx ea (genv_of w k) (w_names w) (wild_of w k cprops) (doms_of w k cprops cdoms)) ts ->
    check_trees w k m ts cprops cdoms = Ok rs -> check_trees w k m' ts cprops cdoms = Ok rs' ->
    List.Forall2 (fun R R' => forall v, mem (g_L (genv_of w k)) (unit_of w k) v = true ->
       mem (g_L (genv_of w k)) R v = mem (g_L (genv_of w k)) R' v) rs rs'.
Proof. exact cached_C12_ext_in_unit_on. Qed.
Print Assumptions Cached_C12_patterns_irrelevant_ext_partial.

Theorem Cached_C12_patterns_irrelevant_model_check_ext_partial :
  forall ea (w : world) (k : nat), world_ok w ->
  forall ctx, (forall l s, alookup str_eqb l ctx = Some s -> shaped (Lpn (w_p w) (w_n w)) s) ->
  forall m m' fs rs rs',
    m_ext m = true -> m_ext m' = true -> m_sanitize m = false -> m_sanitize m' = false ->
    m_unsafe_ex m = false -> m_unsafe_ex m' = false -> m_nocache m = false -> m_nocache m' = false ->
    m_nopatterns m = false -> m_nopatterns m' = true ->
    model_check ea w k m ctx fs = Ok rs -> model_check ea w k m' ctx fs = Ok rs' ->
    List.Forall2 (fun R R' => forall v, mem (g_L (genv_of w k)) (unit_of w k) v = true ->
       mem (g_L (genv_of w k)) R v = mem (g_L (genv_of w k)) R' v) rs rs'.
Proof. exact cached_C12_ext_model_check_on. Qed.
Print Assumptions Cached_C12_patterns_irrelevant_model_check_ext_partial.

(** * 5. C14: invalid input is rejected with an error, never with a panic, never silently *)

(** ** plain modes, all of them: real or empty self-loop set, sanitised or dirty
    (C14 leaves out the sanitised variant of the unsafe_ex entry point; here it is covered:
    the raw result of a closed formula ignores the spare copies whatever self-loop set is
    handed to the evaluator, [Cached_closed_plain_result_ignores_copies]) *)

Theorem Cached_closed_plain_result_ignores_copies :
  forall ea ext (w : world) (k : nat), world_ok w ->
  forall m t R,
    good ea ext (genv_of w k) (w_names w) t -> depth_named 0 t ->
    peval (genv_of w k) (w_names w) {| use_patterns := negb (m_nopatterns m) |}
          (if m_unsafe_ex m then empty (genv_of w k) else steady_of (genv_of w k) (unit_of w k))
          t (unit_of w k) = Ok R ->
    forall v v', (forall g, not_extra g = true -> v g = v' g) ->
      mem (g_L (genv_of w k)) R v = mem (g_L (genv_of w k)) R v'.
Proof. exact plain_closed_result_indep. Qed.
Print Assumptions Cached_closed_plain_result_ignores_copies.

Theorem Cached_C14_no_panic :
  forall ea (w : world) (k : nat) m ctx fs,
    world_ok w -> m_ext m = false -> m_nocache m = false ->
    (forall p, model_check ea w k m ctx fs <> Panic p) /\ model_check ea w k m ctx fs <> OutOfFuel.
Proof. exact cached_C14_no_panic_on. Qed.
Print Assumptions Cached_C14_no_panic.

Theorem Cached_C14_cases :
  forall ea (w : world) (k : nat) m ctx fs,
    world_ok w -> m_ext m = false -> m_nocache m = false ->
    (exists rs, model_check ea w k m ctx fs = Ok rs /\ length rs = length fs
                /\ List.Forall (accepted ea (w_names w) k) fs)
    \/ (exists e, model_check ea w k m ctx fs = Err e
                  /\ first_reject (accepted ea (w_names w) k) (rejected ea (w_names w) k) fs e).
Proof. exact cached_C14_cases_on. Qed.
Print Assumptions Cached_C14_cases.

Theorem Cached_C14_error_iff_strings :
  forall ea (w : world) (k : nat) m ctx fs e,
    world_ok w -> m_ext m = false -> m_nocache m = false ->
    (model_check ea w k m ctx fs = Err e
     <-> first_reject (accepted ea (w_names w) k) (rejected ea (w_names w) k) fs e).
Proof. exact cached_C14_err_iff_on. Qed.
Print Assumptions Cached_C14_error_iff_strings.

Theorem Cached_C14_ok_iff :
  forall ea (w : world) (k : nat) m ctx fs,
    world_ok w -> m_ext m = false -> m_nocache m = false ->
    ((exists rs, model_check ea w k m ctx fs = Ok rs) <-> List.Forall (accepted ea (w_names w) k) fs).
Proof. exact cached_C14_ok_iff_on. Qed.
Print Assumptions Cached_C14_ok_iff.

Theorem Cached_C14_error_iff :
  forall ea (w : world) (k : nat) m ctx fs ts e,
    world_ok w -> m_ext m = false -> m_nocache m = false ->
    Forall2 (fun f t => parse_formula ea false f = Ok t) fs ts ->
    (model_check ea w k m ctx fs = Err e
     <-> exists ts1 t ts2,
           ts = ts1 ++ t :: ts2
           /\ List.Forall (fun t1 => well_scoped (w_names w) [] t1 /\ qdepth t1 <= k) ts1
           /\ (scope_violation (w_names w) [] t e
               \/ (well_scoped (w_names w) [] t /\ k < qdepth t /\ e = EVarSupport))).
Proof. exact cached_C14_err_iff_parsed_on. Qed.
Print Assumptions Cached_C14_error_iff.

Theorem Cached_C14_some_error_iff :
  forall ea (w : world) (k : nat) m ctx fs ts,
    world_ok w -> m_ext m = false -> m_nocache m = false ->
    Forall2 (fun f t => parse_formula ea false f = Ok t) fs ts ->
    ((exists e, model_check ea w k m ctx fs = Err e)
     <-> List.Exists (fun t => ~ well_scoped (w_names w) [] t \/ k < qdepth t) ts).
Proof. exact cached_C14_errs_iff_parsed_on. Qed.
Print Assumptions Cached_C14_some_error_iff.

(** ** extended mode (wild-card propositions, domains, the context-label check) *)

(** sanitised or dirty: never a panic, never out of fuel, on any strings and any shaped
    context *)
Theorem Cached_C14_no_panic_ext :
  forall ea (w : world) (k : nat), world_ok w ->
  forall ctx, (forall l s, alookup str_eqb l ctx = Some s -> shaped (Lpn (w_p w) (w_n w)) s) ->
  forall m fs,
    m_ext m = true -> m_unsafe_ex m = false -> m_nocache m = false ->
    (forall p, model_check ea w k m ctx fs <> Panic p) /\ model_check ea w k m ctx fs <> OutOfFuel.
Proof. exact cached_C14_ext_no_panic_on. Qed.
Print Assumptions Cached_C14_no_panic_ext.

Theorem Cached_C14_cases_ext :
  forall ea (w : world) (k : nat), world_ok w ->
  forall ctx, (forall l s, alookup str_eqb l ctx = Some s -> shaped (Lpn (w_p w) (w_n w)) s) ->
  forall m fs,
    m_ext m = true -> m_unsafe_ex m = false -> m_nocache m = false ->
    (exists rs, model_check ea w k m ctx fs = Ok rs /\ length rs = length fs
                /\ List.Forall (acceptedx ea (w_names w) k ctx) fs)
    \/ (exists e, model_check ea w k m ctx fs = Err e
                  /\ first_reject (acceptedx ea (w_names w) k ctx) (rejectedx ea (w_names w) k ctx) fs e).
Proof. exact cached_C14_ext_cases_on. Qed.
Print Assumptions Cached_C14_cases_ext.

(** an error exactly when some formula is rejected -- lexical error, parse error, free
    variable, re-quantification, unknown proposition, too few spare copies, missing context
    label; the class is that of the first cause of the first rejected formula *)
Theorem Cached_C14_error_iff_ext :
  forall ea (w : world) (k : nat), world_ok w ->
  forall ctx, (forall l s, alookup str_eqb l ctx = Some s -> shaped (Lpn (w_p w) (w_n w)) s) ->
  forall m fs e,
    m_ext m = true -> m_unsafe_ex m = false -> m_nocache m = false ->
    (model_check ea w k m ctx fs = Err e
     <-> first_reject (acceptedx ea (w_names w) k ctx) (rejectedx ea (w_names w) k ctx) fs e).
Proof. exact cached_C14_ext_err_iff_on. Qed.
Print Assumptions Cached_C14_error_iff_ext.

Theorem Cached_C14_ok_iff_ext :
  forall ea (w : world) (k : nat), world_ok w ->
  forall ctx, (forall l s, alookup str_eqb l ctx = Some s -> shaped (Lpn (w_p w) (w_n w)) s) ->
  forall m fs,
    m_ext m = true -> m_unsafe_ex m = false -> m_nocache m = false ->
    ((exists rs, model_check ea w k m ctx fs = Ok rs)
     <-> List.Forall (acceptedx ea (w_names w) k ctx) fs).
Proof. exact cached_C14_ext_ok_iff_on. Qed.
Print Assumptions Cached_C14_ok_iff_ext.

(** with every formula tokenized and parsed (extended syntax) *)
Theorem Cached_C14_error_iff_parsed_ext :
  forall ea (w : world) (k : nat), world_ok w ->
  forall ctx, (forall l s, alookup str_eqb l ctx = Some s -> shaped (Lpn (w_p w) (w_n w)) s) ->
  forall m fs ts e,
    m_ext m = true -> m_unsafe_ex m = false -> m_nocache m = false ->
    Forall2 (fun f t => parse_formula ea true f = Ok t) fs ts ->
    (model_check ea w k m ctx fs = Err e
     <-> exists ts1 t ts2,
           ts = ts1 ++ t :: ts2
           /\ List.Forall (fun t1 => (well_scoped (w_names w) [] t1 /\ qdepth t1 <= k)
                                     /\ labels_known ctx t1) ts1
           /\ ((scope_violation (w_names w) [] t e
                \/ (well_scoped (w_names w) [] t /\ k < qdepth t /\ e = EVarSupport))
               \/ ((well_scoped (w_names w) [] t /\ qdepth t <= k) /\ label_missing ctx t
                   /\ e = EMissingContext))).
Proof. exact cached_C14_ext_err_iff_parsed_on. Qed.
Print Assumptions Cached_C14_error_iff_parsed_ext.

Theorem Cached_C14_error_class_ext :
  forall ea props k ctx f e,
    rejectedx ea props k ctx f e ->
    e = ELex \/ e = EParse \/ e = EFreeVar \/ e = ERequantified \/ e = EUnknownProp
    \/ e = EVarSupport \/ e = EMissingContext.
Proof. exact rejectedx_class. Qed.
Print Assumptions Cached_C14_error_class_ext.

Theorem Cached_C14_verdict_exclusive_ext :
  forall ea props k ctx f,
    (acceptedx ea props k ctx f \/ exists e, rejectedx ea props k ctx f e)
    /\ (forall e, acceptedx ea props k ctx f -> ~ rejectedx ea props k ctx f e)
    /\ (forall e e', rejectedx ea props k ctx f e -> rejectedx ea props k ctx f e' -> e = e').
Proof.
  exact (fun ea props k ctx f =>
           conj (classifyx ea props k ctx f)
                (conj (fun e => acceptedx_not_rejectedx ea props k ctx f e)
                      (fun e e' => rejectedx_unique ea props k ctx f e e'))).
Qed.
Print Assumptions Cached_C14_verdict_exclusive_ext.

(** the reason why the sanitiser cannot panic on extended formulae: the raw result of a closed
    extended formula (cache-free evaluator, any switches) does not read the spare copies *)
Theorem Cached_closed_ext_result_ignores_copies :
  forall ea (w : world) (k : nat), world_ok w ->
  forall cprops cdoms (Gamma : str -> val -> Prop),
    ctx_ignores_copies Gamma ->
    wild_sets_ok (genv_of w k) Gamma (wild_of w k cprops) ->
    dom_sets_ok (genv_of w k) Gamma (doms_of w k cprops cdoms) ->
  forall sw t R,
    topx ea (genv_of w k) (w_names w) (wild_of w k cprops) (doms_of w k cprops cdoms) t ->
    peval_ext (genv_of w k) (w_names w) sw (steady_of (genv_of w k) (unit_of w k))
              (wild_of w k cprops) (doms_of w k cprops cdoms) t (unit_of w k) = Ok R ->
    (forall v v', (forall g, is_extra_tag g = false -> v g = v' g) ->
       mem (g_L (genv_of w k)) R v = mem (g_L (genv_of w k)) R v')
    /\ exists S, sanitize (genv_of w k) R = Ok S.
Proof. exact closed_ext_result_ignores_copies. Qed.
Print Assumptions Cached_closed_ext_result_ignores_copies.

(** * 6. C15: sanitised = raw; independence of the number of spare copies *)

Theorem Cached_C15_sanitize_eq_raw :
  forall ea ext (w : world) (k : nat), world_ok w ->
  forall m m' ts rs,
    m_ext m = false -> m_ext m' = false -> m_unsafe_ex m = false -> m_unsafe_ex m' = false ->
    m_nocache m = false -> m_nocache m' = false ->
    m_sanitize m = false -> m_sanitize m' = true ->
    List.Forall (good ea ext (genv_of w k) (w_names w)) ts -> List.Forall (depth_named 0) ts ->
    check_trees w k m ts [] [] = Ok rs ->
    exists ss, check_trees w k m' ts [] [] = Ok ss
      /\ List.Forall2 (fun R S => shaped (filter not_extra (g_L (genv_of w k))) S /\
           forall v, mem (filter not_extra (g_L (genv_of w k))) S v = mem (g_L (genv_of w k)) R v) rs ss.
Proof. exact cached_C15_sanitize_eq_raw_on. Qed.
Print Assumptions Cached_C15_sanitize_eq_raw.

Theorem Cached_C15_sanitize_eq_raw_model_check :
  forall ea (w : world) (k : nat), world_ok w ->
  forall m m' ctx fs rs,
    m_ext m = false -> m_ext m' = false -> m_unsafe_ex m = false -> m_unsafe_ex m' = false ->
    m_nocache m = false -> m_nocache m' = false ->
    m_sanitize m = false -> m_sanitize m' = true ->
    model_check ea w k m ctx fs = Ok rs ->
    exists ss, model_check ea w k m' ctx fs = Ok ss
      /\ List.Forall2 (fun R S => shaped (filter not_extra (g_L (genv_of w k))) S /\
           forall v, mem (filter not_extra (g_L (genv_of w k))) S v = mem (g_L (genv_of w k)) R v) rs ss.
Proof. exact cached_C15_model_check_sanitize_eq_raw_on. Qed.
Print Assumptions Cached_C15_sanitize_eq_raw_model_check.

(** extended formulae (new: not in C15) *)
Theorem Cached_C15_sanitize_eq_raw_ext :
  forall ea (w : world) (k : nat), world_ok w ->
  forall cprops cdoms (Gamma : str -> val -> Prop),
    ctx_ignores_copies Gamma ->
    wild_sets_ok (genv_of w k) Gamma (wild_of w k cprops) ->
    dom_sets_ok (genv_of w k) Gamma (doms_of w k cprops cdoms) ->
  forall m m' ts rs,
    m_ext m = true -> m_ext m' = true -> m_unsafe_ex m = false -> m_unsafe_ex m' = false ->
    m_nocache m = false -> m_nocache m' = false ->
    m_sanitize m = false -> m_sanitize m' = true -> m_nopatterns m = m_nopatterns m' ->
    List.Forall (topx ea (genv_of w k) (w_names w) (wild_of w k cprops) (doms_of w k cprops cdoms)) ts ->
    check_trees w k m ts cprops cdoms = Ok rs ->
    exists ss, check_trees w k m' ts cprops cdoms = Ok ss
      /\ List.Forall2 (fun R S => shaped (filter not_extra (g_L (genv_of w k))) S /\
           forall v, mem (filter not_extra (g_L (genv_of w k))) S v = mem (g_L (genv_of w k)) R v) rs ss.
Proof. exact cached_C15_ext_sanitize_eq_raw_on. Qed.
Print Assumptions Cached_C15_sanitize_eq_raw_ext.

Theorem Cached_C15_sanitize_eq_raw_model_check_ext :
  forall ea (w : world) (k : nat), world_ok w ->
  forall ctx, (forall l s, alookup str_eqb l ctx = Some s -> shaped (Lpn (w_p w) (w_n w)) s) ->
  forall m m' fs rs,
    m_ext m = true -> m_ext m' = true -> m_unsafe_ex m = false -> m_unsafe_ex m' = false ->
    m_nocache m = false -> m_nocache m' = false ->
    m_sanitize m = false -> m_sanitize m' = true -> m_nopatterns m = m_nopatterns m' ->
    model_check ea w k m ctx fs = Ok rs ->
    exists ss, model_check ea w k m' ctx fs = Ok ss
      /\ List.Forall2 (fun R S => shaped (filter not_extra (g_L (genv_of w k))) S /\
           forall v, mem (filter not_extra (g_L (genv_of w k))) S v = mem (g_L (genv_of w k)) R v) rs ss.
Proof. exact cached_C15_ext_model_check_sanitize_eq_raw_on. Qed.
Print Assumptions Cached_C15_sanitize_eq_raw_model_check_ext.

(** two numbers of spare copies: the sanitised batch results are the same list of trees over
    the layout  parameters ++ states, each the set of (colour, state) pairs of the unit that
    satisfy the formula (pattern switches may differ) *)
Theorem Cached_C15_k_independent :
  forall ea ext (w : world) (k k' : nat), world_ok w ->
  forall m m' ts ss,
    m_ext m = false -> m_ext m' = false -> m_unsafe_ex m = false -> m_unsafe_ex m' = false ->
    m_nocache m = false -> m_nocache m' = false ->
    m_sanitize m = true -> m_sanitize m' = true ->
    List.Forall (good ea ext (genv_of w k) (w_names w)) ts ->
    List.Forall (good ea ext (genv_of w k') (w_names w)) ts ->
    List.Forall (depth_named 0) ts ->
    check_trees w k m ts [] [] = Ok ss ->
    check_trees w k' m' ts [] [] = Ok ss
    /\ List.Forall2 (fun t S => shaped (Lpn (w_p w) (w_n w)) S /\
         forall (Gamma : str -> val -> Prop) v, mem (Lpn (w_p w) (w_n w)) S v = true <->
           (mem (Lpn (w_p w) (w_n w)) (w_unit w) v = true /\ sat (genv_of w k) (w_names w) Gamma t v)) ts ss.
Proof. exact cached_C15_k_independent_on. Qed.
Print Assumptions Cached_C15_k_independent.

Theorem Cached_C15_k_independent_model_check :
  forall ea (w : world) (k k' : nat) m m' ctx ctx' fs ss ss',
    world_ok w ->
    m_ext m = false -> m_ext m' = false -> m_unsafe_ex m = false -> m_unsafe_ex m' = false ->
    m_nocache m = false -> m_nocache m' = false ->
    m_sanitize m = true -> m_sanitize m' = true ->
    model_check ea w k m ctx fs = Ok ss -> model_check ea w k' m' ctx' fs = Ok ss' ->
    ss = ss'
    /\ exists ts, List.Forall2 (fun f t => parse_and_minimize ea false (w_names w) f = Ok t) fs ts
       /\ List.Forall2 (fun t S => shaped (Lpn (w_p w) (w_n w)) S /\
            forall (Gamma : str -> val -> Prop) v, mem (Lpn (w_p w) (w_n w)) S v = true <->
              (mem (Lpn (w_p w) (w_n w)) (w_unit w) v = true /\ sat (genv_of w k) (w_names w) Gamma t v)) ts ss.
Proof. exact cached_C15_model_check_k_independent_on. Qed.
Print Assumptions Cached_C15_k_independent_model_check.

(** * 7. C18: the self-loop-free variant (plain or extended; any contexts) *)

Theorem Cached_C18_fragment :
  forall (w : world) k m m' ts cp cd,
    m_nocache m = false -> m_nocache m' = false ->
    m_ext m = m_ext m' -> m_sanitize m = m_sanitize m' -> m_nopatterns m = m_nopatterns m' ->
    List.Forall in_fragment ts ->
    check_trees w k m ts cp cd = check_trees w k m' ts cp cd.
Proof. exact cached_C18_fragment_check_trees_on. Qed.
Print Assumptions Cached_C18_fragment.

(** the formulae that parse are in the fragment (without EX, AX, AF, EG, AU, EW) *)
Theorem Cached_C18_fragment_model_check :
  forall ea (w : world) k m m' ctx fs,
    m_nocache m = false -> m_nocache m' = false ->
    m_ext m = m_ext m' -> m_sanitize m = m_sanitize m' -> m_nopatterns m = m_nopatterns m' ->
    (forall f t0, In f fs -> parse_formula ea (m_ext m) f = Ok t0 -> in_fragment t0) ->
    model_check ea w k m ctx fs = model_check ea w k m' ctx fs.
Proof. exact cached_C18_fragment_model_check_on. Qed.
Print Assumptions Cached_C18_fragment_model_check.

(** no valid colour has a steady state: any formulae *)
Theorem Cached_C18_no_steady :
  forall (w : world) k, world_ok w ->
    (forall v, mem (g_L (genv_of w k)) (unit_of w k) v = true -> ~ vsteady (genv_of w k) v) ->
  forall m m' ts cp cd,
    m_nocache m = false -> m_nocache m' = false ->
    m_ext m = m_ext m' -> m_sanitize m = m_sanitize m' -> m_nopatterns m = m_nopatterns m' ->
    check_trees w k m ts cp cd = check_trees w k m' ts cp cd.
Proof. exact cached_C18_no_steady_check_trees_on. Qed.
Print Assumptions Cached_C18_no_steady.

Theorem Cached_C18_no_steady_model_check :
  forall ea (w : world) k, world_ok w ->
    (forall v, mem (g_L (genv_of w k)) (unit_of w k) v = true -> ~ vsteady (genv_of w k) v) ->
  forall m m' ctx fs,
    m_nocache m = false -> m_nocache m' = false ->
    m_ext m = m_ext m' -> m_sanitize m = m_sanitize m' -> m_nopatterns m = m_nopatterns m' ->
    model_check ea w k m ctx fs = model_check ea w k m' ctx fs.
Proof. exact cached_C18_no_steady_model_check_on. Qed.
Print Assumptions Cached_C18_no_steady_model_check.

(** * 8. C20: the answer for a colour is the answer on the network instantiated by it *)

Theorem Cached_C20_colour_slice :
  forall ea ext (w : world) (k : nat), world_ok w ->
  forall (c : val) (u' : tt),
    shaped (Lpn (w_p w) (w_n w)) u' ->
    (forall v v', (forall j, v (TP j) = v' (TP j)) ->
       mem (Lpn (w_p w) (w_n w)) u' v = mem (Lpn (w_p w) (w_n w)) u' v') ->
  forall m m' ts rs rs',
    m_ext m = false -> m_ext m' = false -> m_sanitize m = false -> m_sanitize m' = false ->
    m_unsafe_ex m = false -> m_unsafe_ex m' = false -> m_nocache m = false -> m_nocache m' = false ->
    List.Forall (good ea ext (genv_of w k) (w_names w)) ts ->
    check_trees w k m ts [] [] = Ok rs -> check_trees (colour_world c u' w) k m' ts [] [] = Ok rs' ->
    List.Forall2 (fun R R' => forall v, (forall j, v (TP j) = c (TP j)) ->
       mem (g_L (genv_of w k)) (unit_of w k) v = true ->
       mem (g_L (genv_of w k)) (unit_of (colour_world c u' w) k) v = true ->
       mem (g_L (genv_of w k)) R v = mem (g_L (genv_of w k)) R' v) rs rs'.
Proof. exact cached_C20_check_trees_on. Qed.
Print Assumptions Cached_C20_colour_slice.

Theorem Cached_C20_colour_slice_model_check :
  forall ea (w : world) (k : nat) (c : val) (u' : tt) m m' ctx ctx' fs rs rs',
    world_ok w ->
    shaped (Lpn (w_p w) (w_n w)) u' ->
    (forall v v', (forall j, v (TP j) = v' (TP j)) ->
       mem (Lpn (w_p w) (w_n w)) u' v = mem (Lpn (w_p w) (w_n w)) u' v') ->
    m_ext m = false -> m_ext m' = false -> m_sanitize m = false -> m_sanitize m' = false ->
    m_unsafe_ex m = false -> m_unsafe_ex m' = false -> m_nocache m = false -> m_nocache m' = false ->
    model_check ea w k m ctx fs = Ok rs -> model_check ea (colour_world c u' w) k m' ctx' fs = Ok rs' ->
    List.Forall2 (fun R R' => forall v, (forall j, v (TP j) = c (TP j)) ->
       mem (g_L (genv_of w k)) (unit_of w k) v = true ->
       mem (g_L (genv_of w k)) (unit_of (colour_world c u' w) k) v = true ->
       mem (g_L (genv_of w k)) R v = mem (g_L (genv_of w k)) R' v) rs rs'.
Proof. exact cached_C20_model_check_on. Qed.
Print Assumptions Cached_C20_colour_slice_model_check.

(** * Examples (non-vacuity): the hypotheses are satisfiable, the cache is really in use *)

From HCTL Require Import TTFacts OpsFacts C04b C04c.

Module CachedExamples.

(** the world of C04b/C04c: variables a, b (b follows a, a is always updated to 1), one
    parameter bit; all colours valid *)
Example Cached_ex_world : world_ok ex_w /\ world_ok exc_w.
Proof. split; exact C04_ex_world. Qed.

Definition ea : N -> bool := fun _ => false.
(** the default configuration: duplicates marked *)
Definition md (x san ux np : bool) : mode :=
  {| m_ext := x; m_sanitize := san; m_unsafe_ex := ux; m_nocache := false; m_nopatterns := np |}.
Definition show (r : res (list tt)) : list nat + option errkind :=
  match r with Ok rs => inl (map card rs) | Err e => inr (Some e) | _ => inr None end.

(** "!{x}: (EX {x})", "!{x}: !{y}: (AX (EX {y}))", "!{x}: AX {x}" *)
Definition p1 : str := [33;123;120;125;58;32;40;69;88;32;123;120;125;41]%N.
Definition p2 : str :=
  [33;123;120;125;58;32;33;123;121;125;58;32;40;65;88;32;40;69;88;32;123;121;125;41;41]%N.
Definition p3 : str := [33;123;120;125;58;32;65;88;32;123;120;125]%N.

(** the batch has a marked duplicate: (EX {x}) of p1 and (EX {xx}) of p2 share the key *)
Example Cached_ex_marked :
  exists ts, validate_all ea false (w_names ex_w) 2 [] [p1; p2; p3] = Ok (ts, [], [])
             /\ map snd (mark_duplicates ts) = [1].
Proof. eexists. split; vm_compute; reflexivity. Qed.

(** C01 with the cache on, on strings *)
Example Cached_ex_C01 :
  exists rs,
    model_check ea ex_w 2 (md false false false false) [] [p1; p2; p3] = Ok rs
    /\ map card rs = [32; 32; 32]
    /\ exists ts,
         List.Forall2 (fun f t => parse_and_minimize ea false (w_names ex_w) f = Ok t) [p1; p2; p3] ts
         /\ List.Forall2 (fun t R => forall v,
              mem (g_L (genv_of ex_w 2)) R v = true <->
              (mem (g_L (genv_of ex_w 2)) (unit_of ex_w 2) v = true
               /\ sat (genv_of ex_w 2) (w_names ex_w) (fun _ _ => True) t v)) ts rs.
Proof.
  eexists. split; [vm_compute; reflexivity|]. split; [vm_compute; reflexivity|].
  eapply (Cached_C01_model_check_correct ea ex_w 2 (proj1 Cached_ex_world) (fun _ _ => True)
            (md false false false false) [] [p1; p2; p3]); vm_compute; reflexivity.
Qed.

(** C12, C14, C15 on the same strings: the theorems apply, the outcomes are answers *)
Example Cached_ex_C12_C14_C15 :
  model_check ea ex_w 2 (md false false false false) [] [p1; p2; p3]
  = model_check ea ex_w 2 (md false false false true) [] [p1; p2; p3]
  /\ show (model_check ea ex_w 2 (md false true false false) [] [p1; p2; p3]) = inl [2; 2; 2]
  /\ model_check ea ex_w 2 (md false true false false) [] [p1; p2; p3]
     = model_check ea ex_w 3 (md false true false true) [] [p1; p2; p3]
  /\ show (model_check ea ex_w 1 (md false true false false) [] [p1; p2; p3]) = inr (Some EVarSupport)
  /\ (forall p, model_check ea ex_w 2 (md false true false false) [] [p1; p2; p3] <> Panic p).
Proof.
  split; [apply (Cached_C12_patterns_irrelevant_model_check ea ex_w 2 (proj1 Cached_ex_world)); reflexivity|].
  split; [vm_compute; reflexivity|]. split.
  - destruct (model_check ea ex_w 2 (md false true false false) [] [p1; p2; p3]) as [ss| | |] eqn:E1;
      try (vm_compute in E1; discriminate E1).
    destruct (model_check ea ex_w 3 (md false true false true) [] [p1; p2; p3]) as [ss'| | |] eqn:E2;
      try (vm_compute in E2; discriminate E2).
    f_equal.
    exact (proj1 (Cached_C15_k_independent_model_check ea ex_w 2 3 (md false true false false)
                    (md false true false true) [] [] [p1; p2; p3] ss ss'
                    (proj1 Cached_ex_world) eq_refl eq_refl eq_refl eq_refl eq_refl eq_refl eq_refl eq_refl E1 E2)).
  - split; [vm_compute; reflexivity|].
    apply (Cached_C14_no_panic ea ex_w 2 (md false true false false) [] [p1; p2; p3] (proj1 Cached_ex_world));
      reflexivity.
Qed.

(** no panic in any of the eight plain configurations with the cache on, on any strings *)
Example Cached_ex_C14_all_plain_modes :
  forall san ux np fs p, model_check ea ex_w 2 (md false san ux np) [] fs <> Panic p.
Proof.
  intros san ux np fs.
  apply (Cached_C14_no_panic ea ex_w 2 (md false san ux np) [] fs (proj1 Cached_ex_world)); reflexivity.
Qed.

(** extended mode: the instance of C04c (domains A = "a is 1", B = "b is 1"); the sub-formula
    (EX {x}) of g1 is served from the cache for (EX {xx}) of g2 *)
Example Cached_ex_C02 :
  exists (Gamma : str -> val -> Prop) rs,
    ctx_ignores_copies Gamma
    /\ check_trees exc_w 2 (md true false false false) [exc_g1; exc_g2] [] exc_cdoms = Ok rs
    /\ map card rs = [128; 96]
    /\ List.Forall2 (fun t R => shaped (g_L (genv_of exc_w 2)) R /\
         forall v, mem (g_L (genv_of exc_w 2)) (unit_of exc_w 2) v = true ->
           (mem (g_L (genv_of exc_w 2)) R v = true <-> sat (genv_of exc_w 2) (w_names exc_w) Gamma t v))
         [exc_g1; exc_g2] rs.
Proof.
  destruct C04c_ex_hypotheses as (Gamma & Gx & WO & DO & F).
  exists Gamma. eexists. split; [exact Gx|]. split; [vm_compute; reflexivity|].
  split; [vm_compute; reflexivity|].
  eapply (Cached_C02_check_trees_correct exc_ea exc_w 2 (proj2 Cached_ex_world) [] exc_cdoms Gamma Gx WO DO
            (md true false false false) [exc_g1; exc_g2]); try (vm_compute; reflexivity).
  exact F.
Qed.

(** the extended string entry point: "3{x} in %A%: (EX {x})",
    "3{x} in %B%: 3{y} in %A%: (AX (EX {y}))", "%A%", and the unbound label "%Z%" *)
Definition s1 : str := [51;123;120;125;32;105;110;32;37;65;37;58;32;40;69;88;32;123;120;125;41]%N.
Definition s2 : str :=
  [51;123;120;125;32;105;110;32;37;66;37;58;32;51;123;121;125;32;105;110;32;37;65;37;58;32;
   40;65;88;32;40;69;88;32;123;121;125;41;41]%N.
Definition s3 : str := [37;65;37]%N.
Definition s4 : str := [37;90;37]%N.

Lemma exc_ctx_shaped :
  forall l s, alookup str_eqb l exc_cdoms = Some s -> shaped (Lpn (w_p exc_w) (w_n exc_w)) s.
Proof.
  intros l s E. unfold exc_cdoms in E. cbn [alookup] in E.
  destruct (str_eqb l exc_lA); [injection E as <-; vm_compute; tauto|].
  destruct (str_eqb l exc_lB); [injection E as <-; vm_compute; tauto | discriminate E].
Qed.

Example Cached_ex_C02_C14_strings :
  show (model_check ea exc_w 2 (md true false false false) exc_cdoms [s1; s2; s3]) = inl [128; 96; 64]
  /\ show (model_check ea exc_w 2 (md true true false false) exc_cdoms [s1; s2; s3]) = inl [8; 6; 4]
  /\ model_check ea exc_w 2 (md true false false false) exc_cdoms [s1; s4] = Err EMissingContext
  /\ first_reject (acceptedx ea (w_names exc_w) 2 exc_cdoms) (rejectedx ea (w_names exc_w) 2 exc_cdoms)
                  [s1; s4] EMissingContext
  /\ (forall san fs p, model_check ea exc_w 2 (md true san false false) exc_cdoms fs <> Panic p).
Proof.
  split; [vm_compute; reflexivity|]. split; [vm_compute; reflexivity|].
  assert (model_check ea exc_w 2 (md true false false false) exc_cdoms [s1; s4] = Err EMissingContext) as E
    by (vm_compute; reflexivity).
  split; [exact E|]. split.
  - apply (Cached_C14_error_iff_ext ea exc_w 2 (proj2 Cached_ex_world) exc_cdoms exc_ctx_shaped
             (md true false false false) [s1; s4] EMissingContext); first [exact E | reflexivity].
  - intros san fs. apply (Cached_C14_no_panic_ext ea exc_w 2 (proj2 Cached_ex_world) exc_cdoms exc_ctx_shaped
                        (md true san false false) fs); reflexivity.
Qed.

(** "subset of the unit" fails for extended formulae: only the colour p0 = 1 is valid, the
    set of label A is everything, the formula is %A% *)
Definition wu : world :=
  {| w_p := 1; w_n := 2; w_names := [[97%N]; [98%N]];
     w_upd := [const (Lpn 1 2) true; lit (Lpn 1 2) (TS 0)];
     w_unit := lit (Lpn 1 2) (TP 0) |}.

Example Cached_C03_within_unit_ext_refuted :
  world_ok wu
  /\ exists R v,
       check_trees wu 1 (md true false false false) [Terminal (AWild [65%N])]
                   [([65%N], const (Lpn 1 2) true)] [] = Ok [R]
       /\ mem (g_L (genv_of wu 1)) R v = true /\ mem (g_L (genv_of wu 1)) (unit_of wu 1) v = false
       /\ card R = 32 /\ card (unit_of wu 1) = 16.
Proof.
  split.
  - split; [|split; [|split]].
    + constructor; [apply shaped_const|]. constructor; [apply shaped_lit | constructor].
    + apply shaped_lit.
    + intros v v' H. cbn [wu w_unit w_p w_n].
      rewrite !(mem_lit (Lpn 1 2) (TP 0)) by (try (left; reflexivity); apply (IndepFacts.NoDup_Lpn 1 2)).
      apply H.
    + cbn. lia.
  - eexists. exists (fun _ => false). split; [vm_compute; reflexivity|].
    repeat split; vm_compute; reflexivity.
Qed.

(** C18: a one-variable network a' = !a has no steady state *)
Definition wn : world :=
  {| w_p := 0; w_n := 1; w_names := [[97%N]];
     w_upd := [tminus (const (Lpn 0 1) true) (lit (Lpn 0 1) (TS 0))];
     w_unit := const (Lpn 0 1) true |}.
(** "EX a", "!{x}: AX {x}" *)
Definition q1 : str := [69;88;32;97]%N.

Example Cached_ex_C18 :
  world_ok wn
  /\ (forall v, mem (g_L (genv_of wn 1)) (unit_of wn 1) v = true -> ~ vsteady (genv_of wn 1) v)
  /\ model_check ea wn 1 (md false false false false) [] [q1; p3]
     = model_check ea wn 1 (md false false true false) [] [q1; p3]
  /\ show (model_check ea wn 1 (md false false true false) [] [q1; p3]) = inl [2; 0].
Proof.
  assert (world_ok wn) as WOK.
  { split; [|split; [|split]].
    - constructor; [|constructor]. apply shapedb_iff. vm_compute. reflexivity.
    - apply shaped_const.
    - intros v v' _. cbn [wn w_unit w_p w_n]. rewrite !mem_const. reflexivity.
    - cbn. lia. }
  assert (forall v, mem (g_L (genv_of wn 1)) (unit_of wn 1) v = true -> ~ vsteady (genv_of wn 1) v) as NS.
  { intros v Hv ST. destruct WOK as (A & B & C & D).
    pose proof (PipelineFacts.world_wf wn 1 A B C D) as WF.
    assert (mem (g_L (genv_of wn 1)) (steady_of (genv_of wn 1) (unit_of wn 1)) v = true) as X.
    { apply (mem_steady_of (genv_of wn 1) (wf_nodup _ _ _ WF) (wf_upd_shaped _ _ _ WF) (wf_TS_in _ _ _ WF)
               (unit_of wn 1) v (wf_U_shaped _ _ _ WF)). split; assumption. }
    assert (steady_of (genv_of wn 1) (unit_of wn 1) = empty (genv_of wn 1)) as E by (vm_compute; reflexivity).
    rewrite E, mem_empty in X. discriminate X. }
  split; [exact WOK|]. split; [exact NS|]. split; [|vm_compute; reflexivity].
  apply (Cached_C18_no_steady_model_check ea wn 1 WOK NS); reflexivity.
Qed.

(** C20: the world of C04b instantiated by the colour p0 = 1 *)
Definition cT : val := fun _ => true.

Example Cached_ex_C20 :
  world_ok (colour_world cT (w_unit ex_w) ex_w)
  /\ exists rs rs',
       model_check ea ex_w 2 (md false false false false) [] [p1; p2; p3] = Ok rs
       /\ model_check ea (colour_world cT (w_unit ex_w) ex_w) 2 (md false false false true) [] [p1; p2; p3] = Ok rs'
       /\ List.Forall2 (fun R R' => forall v, (forall j, v (TP j) = cT (TP j)) ->
            mem (g_L (genv_of ex_w 2)) (unit_of ex_w 2) v = true ->
            mem (g_L (genv_of ex_w 2)) (unit_of (colour_world cT (w_unit ex_w) ex_w) 2) v = true ->
            mem (g_L (genv_of ex_w 2)) R v = mem (g_L (genv_of ex_w 2)) R' v) rs rs'.
Proof.
  pose proof (proj1 Cached_ex_world) as WOK. pose proof WOK as (A & B & C & D).
  split.
  - exact (colour_world_ok ex_w WOK cT (w_unit ex_w) B C).
  - do 2 eexists. split; [vm_compute; reflexivity|]. split; [vm_compute; reflexivity|].
    eapply (Cached_C20_colour_slice_model_check ea ex_w 2 cT (w_unit ex_w)
              (md false false false false) (md false false false true) [] [] [p1; p2; p3]);
      try assumption; vm_compute; reflexivity.
Qed.

End CachedExamples.

Print Assumptions CachedExamples.Cached_ex_world.
Print Assumptions CachedExamples.Cached_ex_marked.
Print Assumptions CachedExamples.Cached_ex_C01.
Print Assumptions CachedExamples.Cached_ex_C12_C14_C15.
Print Assumptions CachedExamples.Cached_ex_C14_all_plain_modes.
Print Assumptions CachedExamples.Cached_ex_C02.
Print Assumptions CachedExamples.Cached_ex_C02_C14_strings.
Print Assumptions CachedExamples.Cached_C03_within_unit_ext_refuted.
Print Assumptions CachedExamples.Cached_ex_C18.
Print Assumptions CachedExamples.Cached_ex_C20.
Print Assumptions Cached_world_ok_def.
Print Assumptions Cached_Gamma_def.
Print Assumptions Cached_labels_def.
Print Assumptions Cached_acceptedx_def.
Print Assumptions Cached_rejectedx_def.
Print Assumptions Cached_colour_world_def.
