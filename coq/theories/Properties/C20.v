(** C20 -- the answer for a colour equals the answer on the network instantiated by that
    colour.  Statements only; the proofs are in Proofs/ColourFacts.v. *)
From HCTL Require Import Base Syntax MarkDup TT Ops Eval Kripke HCTL.
From HCTL Require Import EvalPure Main ColourFacts.

(** [has_colour c v]: the parameter bits of v are those of c *)
Goal forall c v, has_colour c v <-> (forall j, v (TP j) = c (TP j)).
Proof. intros; unfold has_colour; tauto. Qed.

(** 1. satisfaction at a valuation of colour c reads the graph only through its dimensions
    and through its transitions in colour c (Gamma and names are the same on both sides) *)
Theorem C20_sat_depends_on_colour_only : forall G G' names Gamma (c : val),
  g_n G = g_n G' -> g_k G = g_k G' ->
  (forall i v, (forall j, v (TP j) = c (TP j)) -> enabled G i v = enabled G' i v) ->
  forall t v, (forall j, v (TP j) = c (TP j)) ->
  (sat G names Gamma t v <-> sat G' names Gamma t v).
Proof. exact sat_depends_on_colour_only. Qed.

(** 2. the instantiation of a graph by a colour: every parameter level of every update
    function is fixed to the value the colour gives it *)
Theorem C20_fix_colour_eq : forall c L t, fix_colour c L t =
  match L, t with
  | g :: L', Node lo hi =>
      match g with
      | TP _ => let s := fix_colour c L' (if c g then hi else lo) in Node s s
      | _ => Node (fix_colour c L' lo) (fix_colour c L' hi)
      end
  | _, _ => t
  end.
Proof. intros c [|g L] [b|lo hi]; reflexivity. Qed.

Theorem C20_instantiate_eq : forall c G, instantiate c G =
  {| g_n := g_n G; g_p := g_p G; g_k := g_k G; g_L := g_L G;
     g_upd := map (fix_colour c (g_L G)) (g_upd G) |}.
Proof. reflexivity. Qed.

Theorem C20_mem_fix_colour : forall c L t v, NoDup L -> shaped L t ->
  mem L (fix_colour c L t) v = mem L t (fun g => match g with TP _ => c g | _ => v g end).
Proof. exact mem_fix_colour. Qed.

Theorem C20_shaped_fix_colour : forall c L t, shaped L t -> shaped L (fix_colour c L t).
Proof. exact shaped_fix_colour. Qed.

(** in colour c the instantiated graph has the transitions of G ... *)
Theorem C20_enabled_instantiate : forall c G i v, (forall j, v (TP j) = c (TP j)) ->
  enabled (instantiate c G) i v = enabled G i v.
Proof. exact enabled_instantiate_colour. Qed.

(** ... hence the same answers *)
Theorem C20_colour_slice : forall c G names Gamma t v, (forall j, v (TP j) = c (TP j)) ->
  (sat (instantiate c G) names Gamma t v <-> sat G names Gamma t v).
Proof. exact colour_slice. Qed.

(** the transition structure of the instantiated graph does not depend on the colour bits *)
Theorem C20_instantiate_ignores_colour : forall c G i v w,
  (forall j, v (TS j) = w (TS j)) -> (forall j e, v (TX j e) = w (TX j e)) ->
  enabled (instantiate c G) i v = enabled (instantiate c G) i w.
Proof. exact instantiate_ignores_colour. Qed.

(** the instantiated graph is a well-formed environment whenever G is (same unit) *)
Theorem C20_wf_env_instantiate : forall c G names U,
  wf_env G names U -> wf_env (instantiate c G) names U.
Proof. exact wf_env_instantiate. Qed.

(** 3. the evaluator: on a valuation of colour c inside both units the result computed on G
    and the result computed on the instantiated graph agree *)
Theorem C20_eval_node_colour_slice : forall G names c U U',
  wf_env G names U -> wf_env (instantiate c G) names U' ->
  forall sw sw' t ctx ctx' R R' ctx1 ctx1',
  plainf t -> supported G t -> duplicates ctx = [] -> duplicates ctx' = [] ->
  eval_node G names sw (steady_of G U) t U ctx = Ok (R, ctx1) ->
  eval_node (instantiate c G) names sw' (steady_of (instantiate c G) U') t U' ctx' = Ok (R', ctx1') ->
  forall v, (forall j, v (TP j) = c (TP j)) ->
  mem (g_L G) U v = true -> mem (g_L G) U' v = true ->
  mem (g_L G) R v = mem (g_L G) R' v.
Proof. exact eval_node_colour_slice. Qed.

Theorem C20_peval_colour_slice : forall G names c U U',
  wf_env G names U -> wf_env (instantiate c G) names U' ->
  forall sw sw' t R R', plainf t -> supported G t ->
  peval G names sw (steady_of G U) t U = Ok R ->
  peval (instantiate c G) names sw' (steady_of (instantiate c G) U') t U' = Ok R' ->
  forall v, (forall j, v (TP j) = c (TP j)) ->
  mem (g_L G) U v = true -> mem (g_L G) U' v = true ->
  mem (g_L G) R v = mem (g_L G) R' v.
Proof. exact peval_colour_slice. Qed.

(** the same with one unit: only the environment of G is assumed *)
Theorem C20_eval_node_colour_slice_same_unit : forall G names c U sw sw' t ctx ctx' R R' ctx1 ctx1',
  wf_env G names U ->
  plainf t -> supported G t -> duplicates ctx = [] -> duplicates ctx' = [] ->
  eval_node G names sw (steady_of G U) t U ctx = Ok (R, ctx1) ->
  eval_node (instantiate c G) names sw' (steady_of (instantiate c G) U) t U ctx' = Ok (R', ctx1') ->
  forall v, (forall j, v (TP j) = c (TP j)) -> mem (g_L G) U v = true ->
  mem (g_L G) R v = mem (g_L G) R' v.
Proof. exact eval_node_colour_slice_same_unit. Qed.

Print Assumptions C20_sat_depends_on_colour_only.
Print Assumptions C20_fix_colour_eq.
Print Assumptions C20_instantiate_eq.
Print Assumptions C20_mem_fix_colour.
Print Assumptions C20_shaped_fix_colour.
Print Assumptions C20_enabled_instantiate.
Print Assumptions C20_colour_slice.
Print Assumptions C20_instantiate_ignores_colour.
Print Assumptions C20_wf_env_instantiate.
Print Assumptions C20_eval_node_colour_slice.
Print Assumptions C20_peval_colour_slice.
Print Assumptions C20_eval_node_colour_slice_same_unit.
