(** C12 -- pattern shortcuts agree with generic evaluation.  Statements only. *)
From HCTL Require Import Base Syntax MarkDup TT Ops Eval Kripke HCTL.
From HCTL Require Import SemFacts EvalPure Main.

(** switching the shortcuts on or off does not change the result, wherever the patterns
    occur in the formula *)
Theorem C12_shortcuts_agree :
  forall (G : genv) (names : list str) (U : tt), wf_env G names U ->
  forall (t : tree) (c1 c2 : ectx) (R1 R2 : tt) (c1' c2' : ectx),
    plainf t -> supported G t -> duplicates c1 = [] -> duplicates c2 = [] ->
    eval_node G names {| use_patterns := true |} (steady_of G U) t U c1 = Ok (R1, c1') ->
    eval_node G names {| use_patterns := false |} (steady_of G U) t U c2 = Ok (R2, c2') ->
    R1 = R2.
Proof. exact (fun G names U WF => shortcuts_agree G names U WF (fun _ _ => True)). Qed.
Print Assumptions C12_shortcuts_agree.

(** the precomputed steady-state set is the meaning of  !{x}: AX {x}  (any variable name
    with a spare copy) *)
Theorem C12_steady_shortcut :
  forall (G : genv) (names : list str) (U : tt), wf_env G names U ->
  forall (Gamma : str -> val -> Prop) x e, var_of G x = Some e -> e < g_k G ->
    spec_of G U (steady_of G U) (sat G names Gamma (Hybrid Bind x None (Unary AX (Terminal (AVar x))))).
Proof. intros G names U [? ? ? ? ? ? ? ? ? ?]; intros; eapply steady_pattern_spec; eauto. Qed.
Print Assumptions C12_steady_shortcut.

(** the attractor shortcut is modelled by its specification (bottom SCCs = meaning of
    !{x}: AG EF {x}); what the model returns for it denotes that formula *)
Theorem C12_attractor_shortcut :
  forall (G : genv) (names : list str) (U : tt), wf_env G names U ->
  forall (Gamma : str -> val -> Prop) x e R, var_of G x = Some e -> e < g_k G ->
    attractors G U e = Ok R ->
    spec_of G U R (sat G names Gamma (Hybrid Bind x None (Unary AG (Unary EF (Terminal (AVar x)))))).
Proof. intros G names U [? ? ? ? ? ? ? ? ? ?]; intros; eapply attractor_pattern_spec; eauto. Qed.
Print Assumptions C12_attractor_shortcut.

(** with wild-cards and domains: [eval_node] = the cache-free extended evaluator whatever the
    switches (C02), whose result denotes [sat] -- so near misses and patterns inside restricted
    scopes get the result of their own semantics *)
