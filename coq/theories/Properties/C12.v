(** C12 -- pattern shortcuts agree with generic evaluation.  Statements only. *)
From HCTL Require Import Base Syntax MarkDup TT Ops Eval Kripke HCTL.
From HCTL Require Import SemFacts EvalPure Main.

(** switching the shortcuts on or off does not change the result, wherever the patterns
    occur in the formula *)
Theorem C12_shortcuts_agree :
  forall (G : genv) (names : list str) (U : tt), wf_env G names U ->
  forall (t : tree) (c1 c2 : ectx) (R1 R2 : tt) (c1' c2' : ectx),
    plainf t -> supported G t -> duplicates c1 = [] -> duplicates c2 = [] ->
    eval_node G names {| use_patterns := true |} (steady_of G U) t U c1 = Ok (R1, c1') ->
    eval_node G names {| use_patterns := false |} (steady_of G U) t U c2 = Ok (R2, c2') ->
    R1 = R2.
Proof. exact (fun G names U WF => shortcuts_agree G names U WF (fun _ _ => True)). Qed.
Print Assumptions C12_shortcuts_agree.
