(** C19 -- the aeon-to-bnet converter (src/bin/convert_aeon_to_bnet.rs) preserves the family of
    update functions.  Statements only; model in Model/Converter.v, proofs in
    Proofs/ConverterFacts.v.

    Reading guide.  [eval_fn I s f] is the value of the update function [f] in state [s] when
    the function symbols are interpreted by [I : name -> list bool -> bool]; [eval_flat rho s f]
    is the value of a converted function when its zero-arity parameters are valued by
    [rho : name -> bool].  The zero-arity parameter reached for the symbol [n] when its
    arguments evaluate to [bits] is named [gen (pname n) bits] = n ++ "_" ++ bits written with
    '1' / '0' in argument order (Rust: [format!("{name}_")], then [format!("{name_prefix}1")]
    resp. [format!("{name_prefix}0")] per argument).  A set of functions is described by its
    members [F : state -> bool]. *)
From HCTL Require Import Base Converter.
From HCTL Require Import ConverterFacts.

Local Notation param_free_args args := (forallb (fun a => negb (has_param a)) args = true).

(** * 2. explode_function *)

(** the Shannon expansion reads the leaf named by the values of the arguments (any [args]) *)
Theorem C19_explode_eval : forall rho s args prefix,
  eval_flat rho s (explode args prefix) = rho (gen prefix (map (eval_flat rho s) args)).
Proof. exact explode_eval. Qed.

(** the two families of functions coincide ([rho0] is irrelevant: [args] are parameter-free) *)
Theorem C19_explode_family : forall args prefix rho0, param_free_args args ->
  forall F : (nat -> bool) -> bool,
    (exists rho, forall s, F s = eval_flat rho s (explode args prefix)) <->
    (exists g : list bool -> bool, forall s, F s = g (map (eval_flat rho0 s) args)).
Proof. exact explode_family. Qed.

(** (a) with its witness: rho (prefix ++ bits) := g bits *)
Theorem C19_explode_family_a : forall args prefix g rho0 s, param_free_args args ->
  eval_flat (rho_of_g prefix g) s (explode args prefix) = g (map (eval_flat rho0 s) args).
Proof. exact explode_family_a. Qed.

Theorem C19_rho_of_g_spec : forall prefix g bits, rho_of_g prefix g (gen prefix bits) = g bits.
Proof. exact rho_of_g_gen. Qed.

(** (b) with its witness: g bits := rho (prefix ++ bits); holds for arbitrary [args] *)
Theorem C19_explode_family_b : forall args prefix rho s,
  eval_flat rho s (explode args prefix) = g_of_rho prefix rho (map (eval_flat rho s) args).
Proof. exact explode_family_b. Qed.

(** g |-> rho and rho |-> g are mutually inverse on the generated names, these names are
    pairwise distinct, and only those with |bits| = |args| matter *)
Theorem C19_explode_bijection_g : forall prefix g bits,
  g_of_rho prefix (rho_of_g prefix g) bits = g bits.
Proof. exact g_of_rho_of_g. Qed.

Theorem C19_explode_bijection_rho : forall prefix rho bits,
  rho_of_g prefix (g_of_rho prefix rho) (gen prefix bits) = rho (gen prefix bits).
Proof. exact rho_of_g_of_rho. Qed.

Theorem C19_explode_names_distinct : forall prefix bits bits',
  gen prefix bits = gen prefix bits' -> bits = bits'.
Proof. exact gen_inj. Qed.

Theorem C19_explode_only_generated_names : forall args prefix rho rho' s, param_free_args args ->
  (forall bits, length bits = length args -> rho (gen prefix bits) = rho' (gen prefix bits)) ->
  eval_flat rho s (explode args prefix) = eval_flat rho' s (explode args prefix).
Proof. exact explode_depends_on_generated. Qed.

(** * 3. flatten_fn_update *)

(** No freshness hypothesis between function symbols is needed: thanks to the '_' separator
    the generated names of distinct (symbol, argument values) pairs are always distinct. *)
Theorem C19_generated_names_distinct : forall n bits n' bits',
  gen (pname n) bits = gen (pname n') bits' -> n = n' /\ bits = bits'.
Proof. exact gen_pname_inj. Qed.

(** the two families of functions coincide (flatten without the collision loop, i.e. no
    generated name is a variable name) *)
Theorem C19_flatten_family : forall f (F : (nat -> bool) -> bool),
  (exists rho, forall s, F s = eval_flat rho s (flatten f)) <->
  (exists I, forall s, F s = eval_fn I s f).
Proof. exact flatten_family. Qed.

(** with witnesses that do not depend on [f] (so they serve all update functions of a network
    at once): rho (n ++ "_" ++ bits) := I n bits, resp. I n bits := rho (n ++ "_" ++ bits) *)
Theorem C19_flatten_of_interpretation : forall I s f,
  eval_flat (rho_of_I I) s (flatten f) = eval_fn I s f.
Proof. exact flatten_eval_rho_of_I. Qed.

Theorem C19_flatten_of_valuation : forall rho s f,
  eval_flat rho s (flatten f) = eval_fn (I_of_rho rho) s f.
Proof. exact flatten_eval_I_of_rho. Qed.

Theorem C19_flatten_bijection_I : forall I n bits, I_of_rho (rho_of_I I) n bits = I n bits.
Proof. exact I_of_rho_of_I. Qed.

Theorem C19_flatten_bijection_rho : forall rho n bits,
  rho_of_I (I_of_rho rho) (gen (pname n) bits) = rho (gen (pname n) bits).
Proof. exact rho_of_I_of_rho. Qed.

Theorem C19_flatten_only_generated_names : forall rho s f,
  eval_flat rho s (flatten f) = eval_flat (rho_of_I (I_of_rho rho)) s (flatten f).
Proof. exact flatten_depends_on_generated. Qed.

(** the output mentions zero-arity parameters only *)
Theorem C19_flatten_is_flat : forall f, is_flat (flatten f) = true.
Proof. exact flatten_flat. Qed.

(** ** with the collision loop of the Rust code ([flatten_rs]; any fuel)

    FRESHNESS HYPOTHESIS [names_distinct isvar fuel (occs f)]: for the symbol occurrences
    (n, k) of [f] and all bits of length k, the names [bump isvar fuel (n ++ "_" ++ bits)]
    that the loop finally returns are pairwise distinct. *)
Theorem C19_flatten_rs_family : forall isvar fuel f, names_distinct isvar fuel (occs f) ->
  forall F : (nat -> bool) -> bool,
    (exists rho, forall s, F s = eval_flat rho s (flatten_rs isvar fuel f)) <->
    (exists I, forall s, F s = eval_fn I s f).
Proof. exact flatten_rs_family_distinct. Qed.

(** one valuation for all functions whose symbol occurrences lie in [C] *)
Theorem C19_flatten_rs_of_interpretation : forall isvar fuel C I s f,
  names_distinct isvar fuel C -> incl (occs f) C ->
  eval_flat (rho_of_I_rs isvar fuel C I) s (flatten_rs isvar fuel f) = eval_fn I s f.
Proof. exact flatten_rs_eval_rho_of_I. Qed.

(** this direction needs no hypothesis *)
Theorem C19_flatten_rs_of_valuation : forall isvar fuel rho s f,
  eval_flat rho s (flatten_rs isvar fuel f) = eval_fn (I_of_rho_rs isvar fuel rho) s f.
Proof. exact flatten_rs_eval_I_of_rho. Qed.

(** sufficient: no generated name is a variable name; then the loop never fires *)
Theorem C19_clash_free_sufficient : forall isvar fuel f,
  clash_free isvar f -> names_distinct isvar fuel (occs f).
Proof. exact clash_free_names_distinct. Qed.

Theorem C19_flatten_rs_clash_free : forall isvar fuel f,
  clash_free isvar f -> flatten_rs isvar fuel f = flatten f.
Proof. exact flatten_rs_eq. Qed.

(** some hypothesis is needed in the model: with a variable "f_", the zero-arity symbols "f"
    and "f_" are both renamed to "f__" and (f xor f_) becomes constantly false *)
Theorem C19_clash_example :
  flatten_rs clash_isvar 3 clash_fn = FBin BXor (FParam [102; 95; 95]%N []) (FParam [102; 95; 95]%N []) /\
  exists I, forall rho s, eval_flat rho s (flatten_rs clash_isvar 3 clash_fn) <> eval_fn I s clash_fn.
Proof. exact clash_example. Qed.

(** * 4. specified functions are unchanged (syntactically) *)
Theorem C19_specified_preserved : forall f, has_param f = false -> flatten f = f.
Proof. exact flatten_param_free. Qed.

Theorem C19_specified_preserved_rs : forall isvar fuel f,
  has_param f = false -> flatten_rs isvar fuel f = f.
Proof. exact flatten_rs_param_free. Qed.

(** * flatten_update_function for one variable *)

(** a regulated variable gets the flattening of its update function, an implicit function
    being the symbol named like the variable applied to the regulators *)
Theorem C19_flatten_update_regulated : forall name regs upd, regs <> [] ->
  flatten_update name regs upd = Some (flatten (update_of name regs upd)).
Proof. exact flatten_update_regulated. Qed.

(** OBSERVATION (not a preservation result): variables without regulators are skipped, so a
    zero-arity parameter [p] in their update function keeps its name while it is renamed to
    "p_" in every other update function; the two occurrences become independent. *)
Theorem C19_skipped_variable_decorrelated : forall p : str,
  let fa := FParam p [] in
  flatten_update [97]%N [] (Some fa) = Some fa /\
  flatten_update [98]%N [0] (Some fa) = Some (FParam (pname p) []) /\
  exists rho, forall s, eval_flat rho s fa <> eval_flat rho s (FParam (pname p) []).
Proof. exact skipped_variable_decorrelated. Qed.

Print Assumptions C19_explode_eval.
Print Assumptions C19_explode_family.
Print Assumptions C19_explode_family_a.
Print Assumptions C19_rho_of_g_spec.
Print Assumptions C19_explode_family_b.
Print Assumptions C19_explode_bijection_g.
Print Assumptions C19_explode_bijection_rho.
Print Assumptions C19_explode_names_distinct.
Print Assumptions C19_explode_only_generated_names.
Print Assumptions C19_generated_names_distinct.
Print Assumptions C19_flatten_family.
Print Assumptions C19_flatten_of_interpretation.
Print Assumptions C19_flatten_of_valuation.
Print Assumptions C19_flatten_bijection_I.
Print Assumptions C19_flatten_bijection_rho.
Print Assumptions C19_flatten_only_generated_names.
Print Assumptions C19_flatten_is_flat.
Print Assumptions C19_flatten_rs_family.
Print Assumptions C19_flatten_rs_of_interpretation.
Print Assumptions C19_flatten_rs_of_valuation.
Print Assumptions C19_clash_free_sufficient.
Print Assumptions C19_flatten_rs_clash_free.
Print Assumptions C19_clash_example.
Print Assumptions C19_specified_preserved.
Print Assumptions C19_specified_preserved_rs.
Print Assumptions C19_flatten_update_regulated.
Print Assumptions C19_skipped_variable_decorrelated.
