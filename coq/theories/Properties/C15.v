(** C15 -- sanitised results equal the raw ones and do not depend on the number of spare
    copies.  Statements only; the proofs are in Proofs/IndepFacts.v. *)
From HCTL Require Import Base Syntax TT Ops Eval Pipeline Kripke HCTL.
From HCTL Require Import EvalPure Main LayoutFacts IndepFacts.

(** [restrict]: a well-shaped set that does not depend on the dropped levels projects onto the
    kept levels, and the projection has the same members *)
Theorem C15_restrict_indep :
  forall (keep : tag -> bool) (L : layout) (t : tt), NoDup L -> shaped L t ->
  (forall v w, (forall g, keep g = true -> v g = w g) -> mem L t v = mem L t w) ->
  exists s, restrict keep L t = Some s /\ shaped (filter keep L) s /\
            forall v, mem (filter keep L) s v = mem L t v.
Proof. exact restrict_indep_Some. Qed.

(** conversely, a successful projection has the same members as the original, which
    therefore does not depend on the dropped levels *)
Theorem C15_restrict_Some :
  forall (keep : tag -> bool) (L : layout) (t s : tt), restrict keep L t = Some s ->
  (forall v, mem (filter keep L) s v = mem L t v) /\
  (forall v w, (forall g, keep g = true -> v g = w g) -> mem L t v = mem L t w).
Proof. intros; split; [eapply restrict_mem | eapply restrict_Some_indep]; eauto. Qed.

(** sanitising the result of a closed formula never panics and returns the same set *)
Theorem C15_sanitize_eq_raw :
  forall (G : genv) (names : list str) (U : tt), wf_env G names U ->
  forall (sw : switches) (t : tree) (R : tt),
    plainf t -> supported G t -> closed_copies G t ->
    peval G names sw (steady_of G U) t U = Ok R ->
    exists S, sanitize G R = Ok S /\ shaped (filter not_extra (g_L G)) S /\
              forall v, mem (filter not_extra (g_L G)) S v = mem (g_L G) R v.
Proof. exact sanitize_eq_raw. Qed.

(** whenever [sanitize] succeeds, the sanitised set has the members of the raw one *)
Theorem C15_sanitize_Ok :
  forall (G : genv) (R S : tt), sanitize G R = Ok S ->
  (forall v, mem (filter not_extra (g_L G)) S v = mem (g_L G) R v) /\
  (forall v w, (forall g, not_extra g = true -> v g = w g) -> mem (g_L G) R v = mem (g_L G) R w).
Proof. exact sanitize_Ok_indep. Qed.

(** the meaning of a formula whose variables fit into both graphs does not depend on k *)
Theorem C15_sat_k_independent :
  forall (p n k k' : nat) (upd_pn : list tt) (names : list str),
  List.Forall (shaped (Lpn p n)) upd_pn ->
  forall (Gamma : str -> val -> Prop) (t : tree) (v : val),
  (forall l v w, (forall j, v (TP j) = w (TP j)) -> (forall i, v (TS i) = w (TS i)) ->
     (Gamma l v <-> Gamma l w)) ->
  supported (mk_genv p n k upd_pn) t -> supported (mk_genv p n k' upd_pn) t ->
  (sat (mk_genv p n k upd_pn) names Gamma t v <-> sat (mk_genv p n k' upd_pn) names Gamma t v).
Proof. exact sat_k_same_valuation. Qed.

(** two numbers k, k' of spare copies: for a closed plain formula supported in both graphs
    both sanitised results exist, they are the same tree over the canonical layout
    [Lpn p n] (parameters ++ states), and this tree is the set of (colour, state) pairs of
    the unit that satisfy the formula *)
Theorem C15_k_independent :
  forall (p n k k' : nat) (upd_pn : list tt) (unit_pn : tt) (names : list str),
  List.Forall (shaped (Lpn p n)) upd_pn ->
  shaped (Lpn p n) unit_pn ->
  (forall v w, (forall j, v (TP j) = w (TP j)) -> mem (Lpn p n) unit_pn v = mem (Lpn p n) unit_pn w) ->
  length names <= n ->
  forall (sw sw' : switches) (t : tree) (R R' : tt),
  let G := mk_genv p n k upd_pn in
  let G' := mk_genv p n k' upd_pn in
  let U := expand not_extra (mk_layout p n k) unit_pn in
  let U' := expand not_extra (mk_layout p n k') unit_pn in
  plainf t -> supported G t -> supported G' t -> closed_copies G t ->
  peval G names sw (steady_of G U) t U = Ok R ->
  peval G' names sw' (steady_of G' U') t U' = Ok R' ->
  exists S, sanitize G R = Ok S /\ sanitize G' R' = Ok S /\ shaped (Lpn p n) S /\
    forall (Gamma : str -> val -> Prop) v, mem (Lpn p n) S v = true <->
      (mem (Lpn p n) unit_pn v = true /\ sat G names Gamma t v).
Proof. exact k_independent. Qed.

(** the equational form *)
Theorem C15_k_independent_eq :
  forall (p n k k' : nat) (upd_pn : list tt) (unit_pn : tt) (names : list str),
  List.Forall (shaped (Lpn p n)) upd_pn ->
  shaped (Lpn p n) unit_pn ->
  (forall v w, (forall j, v (TP j) = w (TP j)) -> mem (Lpn p n) unit_pn v = mem (Lpn p n) unit_pn w) ->
  length names <= n ->
  forall (sw sw' : switches) (t : tree) (R R' S S' : tt),
  let G := mk_genv p n k upd_pn in
  let G' := mk_genv p n k' upd_pn in
  let U := expand not_extra (mk_layout p n k) unit_pn in
  let U' := expand not_extra (mk_layout p n k') unit_pn in
  plainf t -> supported G t -> supported G' t -> closed_copies G t ->
  peval G names sw (steady_of G U) t U = Ok R ->
  peval G' names sw' (steady_of G' U') t U' = Ok R' ->
  sanitize G R = Ok S -> sanitize G' R' = Ok S' -> S = S'.
Proof. exact k_independent_eq. Qed.

Print Assumptions C15_restrict_indep.
Print Assumptions C15_restrict_Some.
Print Assumptions C15_sanitize_eq_raw.
Print Assumptions C15_sanitize_Ok.
Print Assumptions C15_sat_k_independent.
Print Assumptions C15_k_independent.
Print Assumptions C15_k_independent_eq.
