(** C03 -- results never leave the graph's valid universe.  Statements only. *)
From HCTL Require Import Base Syntax MarkDup TT Ops Eval Kripke HCTL.
From HCTL Require Import SemFacts EvalPure Main.

(** every result of the evaluator is a subset of the unit set *)
Theorem C03_within_unit :
  forall (G : genv) (names : list str) (U : tt), wf_env G names U ->
  forall (sw : switches) (t : tree) (c : ectx) (R : tt) (c' : ectx),
    plainf t -> supported G t -> duplicates c = [] ->
    eval_node G names sw (steady_of G U) t U c = Ok (R, c') ->
    forall v, mem (g_L G) R v = true -> mem (g_L G) U v = true.
Proof. exact (fun G names U WF => eval_node_within_unit G names U WF (fun _ _ => True)). Qed.
Print Assumptions C03_within_unit.

(** every operator result denotes a predicate *inside the unit* ([spec_of] includes the
    subset claim), in particular negation and the constants are relative to the unit *)
Theorem C03_neg_within_unit :
  forall (G : genv) (U : tt), shaped (g_L G) U ->
  forall (A : tt) (P : val -> Prop), spec_of G U A P -> spec_of G U (eval_neg U A) (fun w => ~ P w).
Proof. exact spec_neg. Qed.
Print Assumptions C03_neg_within_unit.
