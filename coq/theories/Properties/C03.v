(** C03 -- results never leave the graph's valid universe.  Statements only. *)
From HCTL Require Import Base Syntax MarkDup TT Ops Eval Kripke HCTL.
From HCTL Require Import SemFacts EvalPure Main.

(** every result of the evaluator is a subset of the unit set *)
Theorem C03_within_unit :
  forall (G : genv) (names : list str) (U : tt), wf_env G names U ->
  forall (sw : switches) (t : tree) (c : ectx) (R : tt) (c' : ectx),
    plainf t -> supported G t -> duplicates c = [] ->
    eval_node G names sw (steady_of G U) t U c = Ok (R, c') ->
    forall v, mem (g_L G) R v = true -> mem (g_L G) U v = true.
Proof. exact (fun G names U WF => eval_node_within_unit G names U WF (fun _ _ => True)). Qed.
Print Assumptions C03_within_unit.

(** every operator result denotes a predicate *inside the unit* ([spec_of] includes the
    subset claim), in particular negation and the constants are relative to the unit *)
Theorem C03_neg_within_unit :
  forall (G : genv) (U : tt), shaped (g_L G) U ->
  forall (A : tt) (P : val -> Prop), spec_of G U A P -> spec_of G U (eval_neg U A) (fun w => ~ P w).
Proof. exact spec_neg. Qed.
Print Assumptions C03_neg_within_unit.

(** ---- second part: closed results ignore the spare copies ---- *)
(** C03 (part 2) -- the meaning of a formula, and the evaluator's result for a closed formula,
    ignore the spare copies that hold no free variable.  Statements only; the proofs are in
    Proofs/IndepFacts.v.

    [copies_ok G A t]  : every free occurrence of a state variable of t (an atom {x} or a jump
                         @{x} not below a binder using the same copy) is stored in a copy e
                         with A e;
    [avoids_copy G e t] = copies_ok G (fun e' => e' <> e) t   (no free variable lives in copy e);
    [closed_copies G t] = copies_ok G (fun _ => False) t      (no free variable at all);
    [closed_names [] t] (closedness by variable names) implies [closed_copies G t]. *)
From HCTL Require Import Base Syntax TT Ops Eval Kripke HCTL.
From HCTL Require Import EvalPure Main IndepFacts.

(** overwriting a copy in which no free variable of t is stored does not change the meaning
    of t (update functions and context sets do not read the spare copies) *)
Theorem C03_sat_ignores_unused_copy :
  forall (G : genv) (names : list str) (Gamma : str -> val -> Prop),
  (forall i v w, (forall g, is_extra_tag g = false -> v g = w g) ->
     mem (g_L G) (upd_of G i) v = mem (g_L G) (upd_of G i) w) ->
  (forall l v w, (forall j, v (TP j) = w (TP j)) -> (forall i, v (TS i) = w (TS i)) ->
     (Gamma l v <-> Gamma l w)) ->
  forall (e : nat) (u : val) (t : tree) (v : val),
    avoids_copy G e t ->
    (sat G names Gamma t (set_copy e u v) <-> sat G names Gamma t v).
Proof. exact sat_set_copy_irrelevant. Qed.

(** the meaning of a closed formula depends on the colour and the state only *)
Theorem C03_sat_closed_ignores_copies :
  forall (G : genv) (names : list str) (Gamma : str -> val -> Prop),
  (forall i v w, (forall g, is_extra_tag g = false -> v g = w g) ->
     mem (g_L G) (upd_of G i) v = mem (g_L G) (upd_of G i) w) ->
  (forall l v w, (forall j, v (TP j) = w (TP j)) -> (forall i, v (TS i) = w (TS i)) ->
     (Gamma l v <-> Gamma l w)) ->
  forall (t : tree) (v w : val),
    closed_copies G t ->
    (forall j, v (TP j) = w (TP j)) -> (forall i, v (TS i) = w (TS i)) ->
    (sat G names Gamma t v <-> sat G names Gamma t w).
Proof. exact sat_closed_ignores_copies. Qed.

(** the set computed for a closed formula does not constrain any spare copy *)
Theorem C03_closed_ignores_copies :
  forall (G : genv) (names : list str) (U : tt), wf_env G names U ->
  forall (sw : switches) (t : tree) (R : tt),
    plainf t -> supported G t -> closed_copies G t ->
    peval G names sw (steady_of G U) t U = Ok R ->
    forall v w, (forall j, v (TP j) = w (TP j)) -> (forall i, v (TS i) = w (TS i)) ->
      mem (g_L G) R v = mem (g_L G) R w.
Proof. exact closed_ignores_copies. Qed.

(** closedness by names is enough, whatever the graph *)
Theorem C03_closed_names_closed_copies :
  forall (G : genv) (t : tree), closed_names [] t -> closed_copies G t.
Proof. exact closed_names_closed_copies. Qed.

Print Assumptions C03_sat_ignores_unused_copy.
Print Assumptions C03_sat_closed_ignores_copies.
Print Assumptions C03_closed_ignores_copies.
Print Assumptions C03_closed_names_closed_copies.
