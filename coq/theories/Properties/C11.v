(** C11 -- the temporal operators obey their fixed-point laws on models of any size.
    Statements only; [S], [T] are arbitrary argument sets inside the unit set [U],
    the network (genv) is arbitrary. *)
From HCTL Require Import Base TT Ops Kripke.
From HCTL Require Import SemFacts Laws.

Local Notation inU G U A := (forall v, mem (g_L G) A v = true -> mem (g_L G) U v = true).
Local Notation st G U := (steady_of G U).

Theorem C11_ef_unfold : forall G U, wf_graph G U -> forall S R,
  shaped (g_L G) S -> inU G U S ->
  eval_ef_saturated G U S = Ok R -> R = tor S (eval_ex G R (st G U)).
Proof. intros G U [? ? ? ? ?]; intros; eapply ef_unfold_law; eauto. Qed.

Theorem C11_eg_unfold : forall G U, wf_graph G U -> forall S R,
  shaped (g_L G) S -> inU G U S ->
  eval_eg G S (st G U) = Ok R -> R = tand S (eval_ex G R (st G U)).
Proof. intros G U [? ? ? ? ?]; intros; eapply eg_unfold_law; eauto. Qed.

Theorem C11_af_unfold : forall G U, wf_graph G U -> forall S R,
  shaped (g_L G) S -> inU G U S ->
  eval_af G U S (st G U) = Ok R -> R = tor S (eval_ax G U R (st G U)).
Proof. intros G U [? ? ? ? ?]; intros; eapply af_unfold_law; eauto. Qed.

Theorem C11_ag_unfold : forall G U, wf_graph G U -> forall S R,
  shaped (g_L G) S -> inU G U S ->
  eval_ag G U S = Ok R -> R = tand S (eval_ax G U R (st G U)).
Proof. intros G U [? ? ? ? ?]; intros; eapply ag_unfold_law; eauto. Qed.

Theorem C11_eu_unfold : forall G U, wf_graph G U -> forall S T R,
  shaped (g_L G) S -> inU G U S -> shaped (g_L G) T -> inU G U T ->
  eval_eu_saturated G S T = Ok R -> R = tor T (tand S (eval_ex G R (st G U))).
Proof. intros G U [? ? ? ? ?]; intros; eapply eu_unfold_law; eauto. Qed.

Theorem C11_au_unfold : forall G U, wf_graph G U -> forall S T R,
  shaped (g_L G) S -> inU G U S -> shaped (g_L G) T -> inU G U T ->
  eval_au G U S T (st G U) = Ok R -> R = tor T (tand S (eval_ax G U R (st G U))).
Proof. intros G U [? ? ? ? ?]; intros; eapply au_unfold_law; eauto. Qed.

(** dualities: AX, AF, AG are complements (relative to the unit) of EX, EG, EF of the
    complement -- and the independently computed A[true U S] agrees with AF S *)
Theorem C11_ax_dual : forall G U S,
  eval_ax G U S (st G U) = eval_neg U (eval_ex G (eval_neg U S) (st G U)).
Proof. reflexivity. Qed.
Theorem C11_af_dual : forall G U S, eval_af G U S (st G U) = (let* r := eval_eg G (eval_neg U S) (st G U) in Ok (eval_neg U r)).
Proof. reflexivity. Qed.
Theorem C11_ag_dual : forall G U S, eval_ag G U S = (let* r := eval_ef_saturated G U (eval_neg U S) in Ok (eval_neg U r)).
Proof. reflexivity. Qed.
Theorem C11_af_is_au : forall G U, wf_graph G U -> forall S R R', shaped (g_L G) S -> inU G U S ->
  eval_af G U S (st G U) = Ok R -> eval_au G U U S (st G U) = Ok R' -> R = R'.
Proof. intros G U [A1 A2 A3 A4 A5] S R R' H1 H2 H3 H4. exact (af_is_au G A1 A2 A3 U A4 A5 S R R' H1 H2 H3 H4). Qed.

(** the results denote the operators of the specification (least / greatest fixed points
    over the asynchronous transition relation with self-loops on steady states) *)
Theorem C11_ex_meaning : forall G U, wf_graph G U -> forall A P,
  spec_of G U A P -> spec_of G U (eval_ex G A (st G U)) (EXs G P).
Proof. intros G U [? ? ? ? ?]; intros; eapply spec_ex; eauto. Qed.
Theorem C11_ax_meaning : forall G U, wf_graph G U -> forall A P,
  spec_of G U A P -> spec_of G U (eval_ax G U A (st G U)) (AXs G P).
Proof. intros G U [? ? ? ? ?]; intros; eapply spec_ax; eauto. Qed.
Theorem C11_eu_meaning : forall G U, wf_graph G U -> forall A B P Q R,
  spec_of G U A P -> spec_of G U B Q ->
  eval_eu_saturated G A B = Ok R -> spec_of G U R (EUs G P Q).
Proof. intros G U [? ? ? ? ?]; intros; eapply spec_eu; eauto. Qed.
Theorem C11_au_meaning : forall G U, wf_graph G U -> forall A B P Q R,
  spec_of G U A P -> spec_of G U B Q ->
  eval_au G U A B (st G U) = Ok R -> spec_of G U R (AUs G P Q).
Proof. intros G U [? ? ? ? ?]; intros; eapply spec_au; eauto. Qed.
Theorem C11_eg_meaning : forall G U, wf_graph G U -> forall A P R,
  spec_of G U A P -> eval_eg G A (st G U) = Ok R -> spec_of G U R (EGs G P).
Proof. intros G U [? ? ? ? ?]; intros; eapply spec_eg; eauto. Qed.
Theorem C11_ag_meaning : forall G U, wf_graph G U -> forall A P R,
  spec_of G U A P -> eval_ag G U A = Ok R -> spec_of G U R (AGs G P).
Proof. intros G U [? ? ? ? ?]; intros; eapply spec_ag; eauto. Qed.
Theorem C11_af_meaning : forall G U, wf_graph G U -> forall A P R,
  spec_of G U A P -> eval_af G U A (st G U) = Ok R -> spec_of G U R (AFs G P).
Proof. intros G U [? ? ? ? ?]; intros; eapply spec_af; eauto. Qed.

(** monotonicity in every argument *)
Theorem C11_ex_mono : forall G U, wf_graph G U -> forall S S', shaped (g_L G) S -> shaped (g_L G) S' ->
  inU G U S -> inU G U S' -> (forall v, mem (g_L G) S v = true -> mem (g_L G) S' v = true) ->
  forall v, mem (g_L G) (eval_ex G S (st G U)) v = true -> mem (g_L G) (eval_ex G S' (st G U)) v = true.
Proof. intros G U [? ? ? ? ?]; intros S S'; intros; eapply (ex_mono G) with (U := U) (S := S) (S' := S'); eauto. Qed.
Theorem C11_ax_mono : forall G U, wf_graph G U -> forall S S', shaped (g_L G) S -> shaped (g_L G) S' ->
  inU G U S -> inU G U S' -> (forall v, mem (g_L G) S v = true -> mem (g_L G) S' v = true) ->
  forall v, mem (g_L G) (eval_ax G U S (st G U)) v = true -> mem (g_L G) (eval_ax G U S' (st G U)) v = true.
Proof. intros G U [? ? ? ? ?]; intros S S'; intros; eapply (ax_mono G) with (U := U) (S := S) (S' := S'); eauto. Qed.
Theorem C11_eu_mono : forall G U, wf_graph G U -> forall S S' T T',
  shaped (g_L G) S -> shaped (g_L G) S' -> shaped (g_L G) T -> shaped (g_L G) T' ->
  inU G U S -> inU G U S' -> inU G U T -> inU G U T' ->
  (forall v, mem (g_L G) S v = true -> mem (g_L G) S' v = true) ->
  (forall v, mem (g_L G) T v = true -> mem (g_L G) T' v = true) ->
  forall R R' v, eval_eu_saturated G S T = Ok R -> eval_eu_saturated G S' T' = Ok R' ->
  mem (g_L G) R v = true -> mem (g_L G) R' v = true.
Proof. intros G U [? ? ? ? ?] S S' T T'; intros; eapply (eu_mono G) with (U := U) (S := S) (S' := S') (T := T) (T' := T'); eauto. Qed.
Theorem C11_au_mono : forall G U, wf_graph G U -> forall S S' T T',
  shaped (g_L G) S -> shaped (g_L G) S' -> shaped (g_L G) T -> shaped (g_L G) T' ->
  inU G U S -> inU G U S' -> inU G U T -> inU G U T' ->
  (forall v, mem (g_L G) S v = true -> mem (g_L G) S' v = true) ->
  (forall v, mem (g_L G) T v = true -> mem (g_L G) T' v = true) ->
  forall R R' v, eval_au G U S T (st G U) = Ok R -> eval_au G U S' T' (st G U) = Ok R' ->
  mem (g_L G) R v = true -> mem (g_L G) R' v = true.
Proof. intros G U [? ? ? ? ?] S S' T T' ? ? ? ? ? ? ? ? ? ? R R' v ? ?; eapply (au_mono G) with (U := U) (S := S) (S' := S') (T := T) (T' := T') (R := R) (R' := R'); eauto. Qed.
Theorem C11_eg_mono : forall G U, wf_graph G U -> forall S S',
  shaped (g_L G) S -> shaped (g_L G) S' -> inU G U S -> inU G U S' ->
  (forall v, mem (g_L G) S v = true -> mem (g_L G) S' v = true) ->
  forall R R' v, eval_eg G S (st G U) = Ok R -> eval_eg G S' (st G U) = Ok R' ->
  mem (g_L G) R v = true -> mem (g_L G) R' v = true.
Proof. intros G U [? ? ? ? ?] S S' ? ? ? ? ? R R' v ? ?; eapply (eg_mono G) with (U := U) (S := S) (S' := S') (R := R) (R' := R'); eauto. Qed.

Print Assumptions C11_ef_unfold.
Print Assumptions C11_eg_unfold.
Print Assumptions C11_af_unfold.
Print Assumptions C11_ag_unfold.
Print Assumptions C11_eu_unfold.
Print Assumptions C11_au_unfold.
Print Assumptions C11_ax_dual.
Print Assumptions C11_af_dual.
Print Assumptions C11_ag_dual.
Print Assumptions C11_af_is_au.
Print Assumptions C11_ex_meaning.
Print Assumptions C11_ax_meaning.
Print Assumptions C11_eu_meaning.
Print Assumptions C11_au_meaning.
Print Assumptions C11_eg_meaning.
Print Assumptions C11_ag_meaning.
Print Assumptions C11_af_meaning.
Print Assumptions C11_ex_mono.
Print Assumptions C11_ax_mono.
Print Assumptions C11_eu_mono.
Print Assumptions C11_au_mono.
Print Assumptions C11_eg_mono.
