(** P18 -- the specification-level oracle [sem_eval] (Spec/Sem.v) computes [sat]
    (Spec/HCTL.v), the same specification that the symbolic model meets (C01).

    Reading guide (all definitions are those of Spec/Sem.v, Spec/Kripke.v, Spec/HCTL.v):
    - [G := mk_genv p n k upd]: the graph of the model (update tables lifted by [expand]);
      [Lpn n p] = parameter bits ++ state bits, [Ln n] = state bits;
    - [col_is p c v]: valuation [v] has colour [c] on the [p] parameter bits;
      [state_is n s v]: [v] holds the state [s] on the [n] state bits;
    - [lift c rho s]: the valuation with colour [c], state [s] and copy [e] = state [rho e];
      [lift_dom c rho v]: [v] has colour [c] and copies [rho] (any state) -- the valuations
      pointwise equal to some [lift c rho s]; this set is closed under moves;
    - [sspec n D X P]: the tree [X] over [Ln n] is shaped and, for every valuation [v] of the
      domain [D], [smem n X v = true <-> P v] ([smem] only reads the state bits of [v]);
    - [ctx_Gamma n p ctxs l v]: the context set stored under label [l] in [ctxs] contains
      (the colour and state of) [v] -- the [Gamma] of [sat] that the oracle implements;
    - [depth_named d t], [qdepth t] (Proofs/PrepFacts.v): variables named by quantifier depth
      ([xs (S e)] = e+1 characters 'x', stored in copy [e]), as produced by [preprocess];
    - [Dom n p c d env v]: [v] has colour [c] and, for every depth [e < d], [env] maps
      [xs (S e)] to a state that copy [e] of [v] holds.
    Standing hypotheses: the update tables are shaped over [Lpn n p]; [length names <= n]. *)
From HCTL Require Import Base Syntax Preprocess TT Ops Eval Pipeline Kripke HCTL Sem.
From HCTL Require Import TTFacts EvalPure PrepFacts IndepFacts SemFacts2 OracleModel OracleTermination.

(** ** 0. tabulation and the naive fixed-point loop *)

Theorem Oracle_tabulate : forall (L : layout) (f : val -> bool) (v : val),
  (forall u w, agree L u w -> f u = f w) -> mem L (tabulate L f) v = f v.
Proof. exact mem_tabulate. Qed.

Theorem Oracle_fix_iter : forall (fuel : nat) (F : sset -> sset) (x r : sset),
  fix_iter fuel F x = Ok r -> F r = r /\ exists j, r = Nat.iter j F x.
Proof. exact fix_iter_spec. Qed.

(** ** 1. the transition structure of one colour *)

Theorem Oracle_enabled : forall (n p k : nat) (upd : list tt),
  List.Forall (shaped (Lpn n p)) upd ->
  forall (c s v : val) (i : nat), col_is p c v -> state_is n s v ->
  enabled (mk_genv p n k upd) i v = xorb (upd_at n p upd c s i) (v (TS i)).
Proof. exact enabled_upd_at. Qed.

Theorem Oracle_succs : forall (n p k : nat) (upd : list tt),
  List.Forall (shaped (Lpn n p)) upd ->
  forall (c v u : val), col_is p c v ->
  (In u (succs n p upd c v) <->
   (exists i, i < n /\ enabled (mk_genv p n k upd) i v = true /\ u = vflip (TS i) v)
   \/ (vsteady (mk_genv p n k upd) v /\ u = v)).
Proof. exact in_succs. Qed.

(** ** 2. explicit-state operators *)

Theorem Oracle_ex_members : forall (n p k : nat) (upd : list tt),
  List.Forall (shaped (Lpn n p)) upd ->
  forall (c : val) (X : sset) (v : val), col_is p c v ->
  (smem n (s_ex n p upd c X) v = true <-> EXs (mk_genv p n k upd) (fun u => smem n X u = true) v).
Proof. exact smem_s_ex. Qed.

Theorem Oracle_ax_members : forall (n p k : nat) (upd : list tt),
  List.Forall (shaped (Lpn n p)) upd ->
  forall (c : val) (X : sset) (v : val), col_is p c v ->
  (smem n (s_ax n p upd c X) v = true <-> AXs (mk_genv p n k upd) (fun u => smem n X u = true) v).
Proof. exact smem_s_ax. Qed.

(** every operator, over any domain [D] of valuations of colour [c] closed under moves *)
Section Operators.
Variables (n p k : nat) (upd : list tt).
Hypothesis upd_shaped : List.Forall (shaped (Lpn n p)) upd.
Variables (c : val) (D : val -> Prop).
Hypothesis D_col : forall v, D v -> col_is p c v.
Hypothesis D_flip : forall v i, D v -> D (vflip (TS i) v).
Local Notation G := (mk_genv p n k upd).

Theorem Oracle_ex : forall A P, sspec n D A P -> sspec n D (s_ex n p upd c A) (EXs G P).
Proof. intros; eapply sspec_ex; eauto. Qed.
Theorem Oracle_ax : forall A P, sspec n D A P -> sspec n D (s_ax n p upd c A) (AXs G P).
Proof. intros; eapply sspec_ax; eauto. Qed.
Theorem Oracle_eu : forall A B P Q R, sspec n D A P -> sspec n D B Q ->
  s_eu n p upd c A B = Ok R -> sspec n D R (EUs G P Q).
Proof. intros; eapply sspec_eu; eauto. Qed.
Theorem Oracle_au : forall A B P Q R, sspec n D A P -> sspec n D B Q ->
  s_au n p upd c A B = Ok R -> sspec n D R (AUs G P Q).
Proof. intros; eapply sspec_au; eauto. Qed.
Theorem Oracle_ew : forall A B P Q R, sspec n D A P -> sspec n D B Q ->
  s_ew n p upd c A B = Ok R -> sspec n D R (EWs G P Q).
Proof. intros; eapply sspec_ew; eauto. Qed.
Theorem Oracle_aw : forall A B P Q R, sspec n D A P -> sspec n D B Q ->
  s_aw n p upd c A B = Ok R -> sspec n D R (AWs G P Q).
Proof. intros; eapply sspec_aw; eauto. Qed.
Theorem Oracle_eg : forall A P R, sspec n D A P ->
  s_eg n p upd c A = Ok R -> sspec n D R (EGs G P).
Proof. intros; eapply sspec_eg; eauto. Qed.
Theorem Oracle_ag : forall A P R, sspec n D A P ->
  s_ag n p upd c A = Ok R -> sspec n D R (AGs G P).
Proof. intros; eapply sspec_ag; eauto. Qed.
End Operators.

(** the domain of the lifted valuations, and reading a [sspec] at [lift c rho s] *)
Theorem Oracle_lift_domain : forall (n p : nat) (c : val) (rho : nat -> val),
  (forall v, lift_dom c rho v -> col_is p c v) /\
  (forall v i, lift_dom c rho v -> lift_dom c rho (vflip (TS i) v)) /\
  (forall s, lift_dom c rho (lift c rho s)) /\
  (forall X P, sspec n (lift_dom c rho) X P -> forall s, smem n X s = true <-> P (lift c rho s)).
Proof.
  intros n p c rho. split; [apply lift_dom_col|]. split; [apply lift_dom_flip|].
  split; [apply lift_dom_lift | apply sspec_lift].
Qed.

(** state-level statement, e.g. for E[. U .] and EG (the other operators are alike) *)
Theorem Oracle_eu_lift : forall (n p k : nat) (upd : list tt),
  List.Forall (shaped (Lpn n p)) upd ->
  forall (c : val) (rho : nat -> val) A B P Q R,
  sspec n (lift_dom c rho) A P -> sspec n (lift_dom c rho) B Q ->
  s_eu n p upd c A B = Ok R ->
  forall s, smem n R s = true <-> EUs (mk_genv p n k upd) P Q (lift c rho s).
Proof.
  intros; eapply sspec_lift; eapply sspec_eu; eauto using lift_dom_col, lift_dom_flip.
Qed.

Theorem Oracle_eg_lift : forall (n p k : nat) (upd : list tt),
  List.Forall (shaped (Lpn n p)) upd ->
  forall (c : val) (rho : nat -> val) A P R,
  sspec n (lift_dom c rho) A P ->
  s_eg n p upd c A = Ok R ->
  forall s, smem n R s = true <-> EGs (mk_genv p n k upd) P (lift c rho s).
Proof.
  intros; eapply sspec_lift; eapply sspec_eg; eauto using lift_dom_col, lift_dom_flip.
Qed.

(** ** 3. [sem] denotes [sat] (all operators, including the hybrid ones) *)

Theorem Oracle_sem : forall (n p k : nat) (upd : list tt) (names : list str) (ctxs : list (str * tt)),
  List.Forall (shaped (Lpn n p)) upd -> length names <= n ->
  forall (t : tree) (c : val) (d : nat) (env : list (str * val)) (X : sset),
  depth_named d t -> d + qdepth t <= k ->
  sem n p upd names ctxs c env t = Ok X ->
  sspec n (Dom n p c d env) X (sat (mk_genv p n k upd) names (ctx_Gamma n p ctxs) t).
Proof. exact sem_sound. Qed.

Theorem Oracle_sem_lift : forall (n p k : nat) (upd : list tt) (names : list str) (ctxs : list (str * tt)),
  List.Forall (shaped (Lpn n p)) upd -> length names <= n ->
  forall (t : tree) (c : val) (d : nat) (env : list (str * val)) (rho : nat -> val) (X : sset),
  depth_named d t -> d + qdepth t <= k ->
  (forall e, e < d -> alookup str_eqb (xs (S e)) env = Some (rho e)) ->
  sem n p upd names ctxs c env t = Ok X ->
  shaped (Ln n) X /\
  forall s, smem n X s = true <->
            sat (mk_genv p n k upd) names (ctx_Gamma n p ctxs) t (lift c rho s).
Proof. exact sem_lift. Qed.

Theorem Oracle_sem_closed : forall (n p k : nat) (upd : list tt) (names : list str) (ctxs : list (str * tt)),
  List.Forall (shaped (Lpn n p)) upd -> length names <= n ->
  forall (t : tree) (c : val) (X : sset),
  depth_named 0 t -> qdepth t <= k ->
  sem n p upd names ctxs c [] t = Ok X ->
  shaped (Ln n) X /\
  forall v, col_is p c v ->
    (smem n X v = true <-> sat (mk_genv p n k upd) names (ctx_Gamma n p ctxs) t v).
Proof. exact sem_closed. Qed.

(** all colours *)
Theorem Oracle_sem_eval : forall (n p k : nat) (upd : list tt) (names : list str) (ctxs : list (str * tt)),
  List.Forall (shaped (Lpn n p)) upd -> length names <= n ->
  forall (unit_pn : tt) (t : tree) (R : tt),
  shaped (Lpn n p) unit_pn -> depth_named 0 t -> qdepth t <= k ->
  sem_eval n p upd names ctxs unit_pn t = Ok R ->
  shaped (Lpn n p) R /\
  forall v, mem (Lpn n p) R v = true <->
    (mem (Lpn n p) unit_pn v = true /\ sat (mk_genv p n k upd) names (ctx_Gamma n p ctxs) t v).
Proof. exact sem_eval_sound. Qed.

Theorem Oracle_sem_eval_lift : forall (n p k : nat) (upd : list tt) (names : list str) (ctxs : list (str * tt)),
  List.Forall (shaped (Lpn n p)) upd -> length names <= n ->
  forall (unit_pn : tt) (t : tree) (R : tt),
  shaped (Lpn n p) unit_pn -> depth_named 0 t -> qdepth t <= k ->
  sem_eval n p upd names ctxs unit_pn t = Ok R ->
  forall (c : val) (rho : nat -> val) (s : val),
    mem (Lpn n p) R (join c s) = true <->
    (mem (Lpn n p) unit_pn (join c s) = true /\
     sat (mk_genv p n k upd) names (ctx_Gamma n p ctxs) t (lift c rho s)).
Proof. exact sem_eval_lift. Qed.

(** on the output of [preprocess] *)
Theorem Oracle_sem_eval_preprocessed :
  forall (n p k : nat) (upd : list tt) (names : list str) (ctxs : list (str * tt)) (unit_pn : tt),
  List.Forall (shaped (Lpn n p)) upd -> length names <= n -> shaped (Lpn n p) unit_pn ->
  forall (props : list str) (t t' : tree) (R : tt),
  preprocess props t = Ok t' -> qdepth t <= k ->
  sem_eval n p upd names ctxs unit_pn t' = Ok R ->
  shaped (Lpn n p) R /\
  forall v, mem (Lpn n p) R v = true <->
    (mem (Lpn n p) unit_pn v = true /\ sat (mk_genv p n k upd) names (ctx_Gamma n p ctxs) t' v).
Proof. exact sem_eval_preprocessed. Qed.

(** for plain closed formulae the oracle returns the very tree the model returns (sanitised) *)
Theorem Oracle_agrees_with_model :
  forall (n p k : nat) (upd : list tt) (names : list str) (ctxs : list (str * tt)) (unit_pn : tt),
  List.Forall (shaped (Lpn n p)) upd -> length names <= n -> shaped (Lpn n p) unit_pn ->
  forall (sw : switches) (t : tree) (Rm S Ro : tt),
  (forall v w, (forall j, v (TP j) = w (TP j)) ->
     mem (Lpn n p) unit_pn v = mem (Lpn n p) unit_pn w) ->
  let G := mk_genv p n k upd in
  let U := expand not_extra (mk_layout p n k) unit_pn in
  plainf t -> supported G t -> closed_copies G t ->
  depth_named 0 t -> qdepth t <= k ->
  peval G names sw (steady_of G U) t U = Ok Rm ->
  sanitize G Rm = Ok S ->
  sem_eval n p upd names ctxs unit_pn t = Ok Ro ->
  S = Ro.
Proof. exact oracle_agrees_with_model. Qed.

(** ** 4. totality: the oracle never runs out of fuel and never panics (no hypothesis) *)

Theorem Oracle_loops_terminate : forall (n p : nat) (upd : list tt) (c : val) (A B : sset),
  shaped (Ln n) A -> shaped (Ln n) B ->
  (exists r, s_eu n p upd c A B = Ok r /\ shaped (Ln n) r) /\
  (exists r, s_au n p upd c A B = Ok r /\ shaped (Ln n) r) /\
  (exists r, s_ew n p upd c A B = Ok r /\ shaped (Ln n) r) /\
  (exists r, s_aw n p upd c A B = Ok r /\ shaped (Ln n) r) /\
  (exists r, s_eg n p upd c A = Ok r /\ shaped (Ln n) r) /\
  (exists r, s_ag n p upd c A = Ok r /\ shaped (Ln n) r).
Proof.
  intros n p upd c A B SA SB.
  repeat split; auto using s_eu_terminates, s_au_terminates, s_ew_terminates, s_aw_terminates,
    s_eg_terminates, s_ag_terminates.
Qed.

Theorem Oracle_sem_total : forall (n p : nat) (upd : list tt) (names : list str) (ctxs : list (str * tt))
  (t : tree) (c : val) (env : list (str * val)),
  (exists X, sem n p upd names ctxs c env t = Ok X /\ shaped (Ln n) X) \/
  (exists e, sem n p upd names ctxs c env t = Err e).
Proof. exact sem_fine. Qed.

Theorem Oracle_sem_eval_total : forall (n p : nat) (upd : list tt) (names : list str)
  (ctxs : list (str * tt)) (unit_pn : tt) (t : tree),
  (exists R, sem_eval n p upd names ctxs unit_pn t = Ok R) \/
  (exists e, sem_eval n p upd names ctxs unit_pn t = Err e).
Proof. exact sem_eval_total. Qed.

Print Assumptions Oracle_tabulate.
Print Assumptions Oracle_fix_iter.
Print Assumptions Oracle_enabled.
Print Assumptions Oracle_succs.
Print Assumptions Oracle_ex_members.
Print Assumptions Oracle_ax_members.
Print Assumptions Oracle_ex.
Print Assumptions Oracle_ax.
Print Assumptions Oracle_eu.
Print Assumptions Oracle_au.
Print Assumptions Oracle_ew.
Print Assumptions Oracle_aw.
Print Assumptions Oracle_eg.
Print Assumptions Oracle_ag.
Print Assumptions Oracle_lift_domain.
Print Assumptions Oracle_eu_lift.
Print Assumptions Oracle_eg_lift.
Print Assumptions Oracle_sem.
Print Assumptions Oracle_sem_lift.
Print Assumptions Oracle_sem_closed.
Print Assumptions Oracle_sem_eval.
Print Assumptions Oracle_sem_eval_lift.
Print Assumptions Oracle_sem_eval_preprocessed.
Print Assumptions Oracle_agrees_with_model.
Print Assumptions Oracle_loops_terminate.
Print Assumptions Oracle_sem_total.
Print Assumptions Oracle_sem_eval_total.
