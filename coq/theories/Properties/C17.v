(** C17 -- the CLI's formula-file loader (src/load_inputs.rs [load_formulae]) and the labels
    under which the CLI stores its results (src/analysis.rs).  Statements only; model in
    Model/Shell.v, proofs in Proofs/ShellFacts.v.

    Reading guide.  [load_formulae content] is the loader applied to the content of the file.
    [lines] is Rust's [str::lines], [trim] is [str::trim].  [kept_line l] says that the line
    [l], once trimmed, is neither empty nor starts with '#'.  [clean_formula f]: [f] is not
    empty, does not start with '#', has no white space at either end and no line feed.
    [join_nl] joins with "\n"; [formulae_txt] terminates every formula with "\n" (the format
    of the formulae.txt archive entry).  [result_label i] is the label "formula-{i}";
    [analysis_results rs] is the map built by inserting the i-th result under that label. *)
From HCTL Require Import Base Tokenizer TT Shell.
From HCTL Require Import ShellFacts.

(** * The library functions the specification is phrased with *)

(** [trim s] is the unique middle part [t] of a decomposition [s = a ++ t ++ b] with [a], [b]
    white space and [t] without white space at its ends *)
Theorem C17_trim_spec : forall s, exists a b,
  s = a ++ trim s ++ b /\ forallb is_ws a = true /\ forallb is_ws b = true /\
  no_ws_ends (trim s).
Proof. exact trim_spec. Qed.

Theorem C17_trim_unique : forall s a t b, s = a ++ t ++ b ->
  forallb is_ws a = true -> forallb is_ws b = true -> no_ws_ends t -> trim s = t.
Proof. exact trim_unique. Qed.

(** [lines]: no line contains a line feed; "\n"-terminated or "\n"-separated lines without
    line feed and final carriage return are read back unchanged *)
Theorem C17_lines_no_nl : forall s l, In l (lines s) -> ~ In c_nl l.
Proof. exact lines_no_nl. Qed.

Theorem C17_lines_terminated : forall ls, Forall one_line ls -> lines (formulae_txt ls) = ls.
Proof. exact lines_formulae_txt. Qed.

Theorem C17_lines_joined : forall ls, Forall one_line ls -> Forall (fun l => l <> []) ls ->
  lines (join_nl ls) = ls.
Proof. exact lines_join_nl. Qed.

(** * load_formulae *)

(** The result is the list of the trimmed kept lines in file order: there is a strictly
    increasing list [idx] of line positions, containing exactly the positions of the kept
    lines, such that formula number j is the trimmed line number [nth j idx]. *)
Theorem C17_load_formulae_spec : forall content,
  exists idx, increasing idx /\
    (forall k, In k idx <-> k < length (lines content) /\ kept_line (nth k (lines content) [])) /\
    load_formulae content = map (fun k => trim (nth k (lines content) [])) idx.
Proof. exact load_formulae_spec. Qed.

(** ... and this determines the result: for any such [idx] *)
Theorem C17_load_formulae_spec_unique : forall content idx,
  increasing idx ->
  (forall k, In k idx <-> k < length (lines content) /\ kept_line (nth k (lines content) [])) ->
  load_formulae content = map (fun k => trim (nth k (lines content) [])) idx.
Proof. exact load_formulae_spec_unique. Qed.

(** membership *)
Theorem C17_load_formulae_In : forall content f,
  In f (load_formulae content) <->
  exists l, In l (lines content) /\ f = trim l /\ f <> [] /\ hd_error f <> Some c_hash.
Proof. exact load_formulae_In. Qed.

(** never an empty string, a comment, leading / trailing white space or a line break *)
Theorem C17_load_formulae_clean : forall content, Forall clean_formula (load_formulae content).
Proof. exact load_formulae_clean. Qed.

(** every list of clean formulae written one per line is loaded back unchanged ... *)
Theorem C17_load_formulae_fixed : forall fs, Forall clean_formula fs ->
  load_formulae (join_nl fs) = fs /\ load_formulae (formulae_txt fs) = fs.
Proof. exact load_formulae_fixed. Qed.

(** ... in particular the loader is idempotent on its own output re-joined with '\n' (and on
    the formulae.txt entry that the CLI writes from it) *)
Theorem C17_load_formulae_idempotent : forall content,
  load_formulae (join_nl (load_formulae content)) = load_formulae content /\
  load_formulae (formulae_txt (load_formulae content)) = load_formulae content.
Proof. exact load_formulae_idempotent. Qed.

(** * Labels *)

Theorem C17_label_text : forall i,
  result_label i = s_formula_dash ++ dec_of_N (N.of_nat i).
Proof. reflexivity. Qed.

Theorem C17_dec_of_N_injective : forall a b, dec_of_N a = dec_of_N b -> a = b.
Proof. exact dec_of_N_inj. Qed.

Theorem C17_labels_distinct : forall i j, result_label i = result_label j -> i = j.
Proof. exact result_label_inj. Qed.

Theorem C17_labels_admissible : forall i, admissible (result_label i).
Proof. exact result_label_admissible. Qed.

(** the CLI's result map binds "formula-i" to result i and nothing else, without clashes *)
Theorem C17_results_map : forall rs,
  NoDup (map fst (analysis_results rs)) /\
  (forall i, alookup str_eqb (result_label i) (analysis_results rs) = nth_error rs i) /\
  (forall l, (forall i, i < length rs -> l <> result_label i) ->
             alookup str_eqb l (analysis_results rs) = None).
Proof. exact analysis_results_spec. Qed.

(** so the archive written by the CLI reloads to the same results: [results] is the result map
    in the order in which the writer iterates over it, [names] the order in which the loader
    visits the entries *)
Theorem C17_labels : forall print parse, (forall b, parse (print b) = Some b) ->
  forall rs (results : setmap) model formulae names,
    NoDup (map fst results) ->
    (forall l b, In (l, b) results <-> In (l, b) (analysis_results rs)) ->
    is_file_names (build_result_archive print results model formulae) names ->
    exists m,
      load_names parse names (build_result_archive print results model formulae) [] = LOk m /\
      NoDup (map fst m) /\
      (forall i, alookup str_eqb (result_label i) m = nth_error rs i) /\
      (forall l, (forall i, i < length rs -> l <> result_label i) -> alookup str_eqb l m = None) /\
      (forall l b, In (l, b) m <-> In (l, b) (analysis_results rs)).
Proof. exact cli_archive_reloads. Qed.

Print Assumptions C17_trim_spec.
Print Assumptions C17_trim_unique.
Print Assumptions C17_lines_no_nl.
Print Assumptions C17_lines_terminated.
Print Assumptions C17_lines_joined.
Print Assumptions C17_load_formulae_spec.
Print Assumptions C17_load_formulae_spec_unique.
Print Assumptions C17_load_formulae_In.
Print Assumptions C17_load_formulae_clean.
Print Assumptions C17_load_formulae_fixed.
Print Assumptions C17_load_formulae_idempotent.
Print Assumptions C17_label_text.
Print Assumptions C17_dec_of_N_injective.
Print Assumptions C17_labels_distinct.
Print Assumptions C17_labels_admissible.
Print Assumptions C17_results_map.
Print Assumptions C17_labels.
