(** C04 -- sub-formula caching and batch evaluation are observationally transparent.
    Statements only.

    FULL STATEMENT (not proved in this round; carried by the correspondence check, which
    evaluates every generated batch in all orders, with repetitions, formula by formula and
    with a context that marks no duplicates):

      forall batches ts of preprocessed formulae and contexts as built by the entry points,
        check_trees w k m ts ctx = Ok rs ->
        rs = map (result of the cache-free evaluator) ts

    What is proved: the cache-free evaluator is what [eval_node] computes whenever the
    evaluation context marks no duplicates (in particular whenever duplicate marking finds
    none), so in that case the results of a batch are, position by position, those of the
    formulae evaluated alone, whatever the order; and the theorems of C18 / C12 hold with
    arbitrary cache contents.  Missing for the full statement: the invariant that every cache
    entry is the cache-free result of a formula with the same canonical text, which needs the
    character-level theory of canonical forms (C09) and the semantics of variable renaming. *)
From HCTL Require Import Base Syntax MarkDup TT Ops Eval Pipeline Kripke HCTL.
From HCTL Require Import EvalPure PipelineFacts.

(** with a context that marks no duplicates, evaluating a batch in sequence gives for every
    formula the result of the cache-free evaluator [peval] *)
Theorem C04_transparent_without_duplicates_partial :
  forall (w : world) (k : nat) sw steady ts c rs,
    List.Forall plainf ts -> duplicates c = [] ->
    eval_all (genv_of w k) (w_names w) sw steady (unit_of w k) ts c = Ok rs ->
    List.Forall2 (fun t R => peval (genv_of w k) (w_names w) sw steady t (unit_of w k) = Ok R) ts rs.
Proof. exact eval_all_nodup. Qed.
Print Assumptions C04_transparent_without_duplicates_partial.

(** ... and a single formula evaluated alone is the same function *)
Theorem C04_single_is_peval_partial :
  forall G names sw steady t U c, plainf t -> duplicates c = [] ->
    exists c', duplicates c' = [] /\
      eval_node G names sw steady t U c = bind (peval G names sw steady t U) (fun r => Ok (r, c')).
Proof. exact eval_node_nodup. Qed.
Print Assumptions C04_single_is_peval_partial.
