(** C06 -- printing and parsing are inverse; stored text and height are consistent.
    Statements only; the proofs are in Proofs/RoundTrip.v.

    Definitions used (from Proofs/RoundTrip.v; their defining equations are restated below
    as checked theorems):

      consistent s        every node of the record tree [s] stores
                          text = render (forget node) and h = height (forget node)
      tokens_of t         the token list of the rendered text of [t]: [[tok_of t]], where a
                          compound node is ONE group token holding the operator and operand
                          tokens, and the constants are the proposition tokens True / False
      unreserved t        no proposition name of [t] is true/True/1/false/False/0
      well_named ea ext t the side condition of the character-level round trip, relative to
                          the classification [ea] of code points >= 128 and the syntax
                          mode [ext] (extended syntax: wild cards and domains):
        - variable, wild-card and domain names are non-empty words of name characters;
        - a proposition name is such a word and moreover (a) is not reserved, (b) is not
          exactly one of the operator words EX AX EF AF EG AG EU AU EW AW 3 V (longer names
          such as "EXa", "AUx", "3x" are fine), (c) does not start with a white-space
          character (automatic below code point 128 and for real Unicode; needed because
          [ea] is arbitrary);
        - wild cards and domains occur only with [ext = true]; a jump has no domain.
      [C06_prop_condition_exact] shows that (a) and (b) are exactly what is needed for a
      proposition name, [C06_leading_ws_dropped] what happens without (c), and the
      counterexamples at the end that the remaining conditions cannot be dropped. *)
From HCTL Require Import Base Syntax Tokenizer Parser Pipeline.
From HCTL Require Import ParserFacts RoundTrip.

(** * 1. Stored fields *)

Theorem C06_consistent_def :
  forall (text : str) (h : nat) (sh : sshape),
    consistent (SNode text h sh) <->
    text = render (forget (SNode text h sh)) /\
    h = height (forget (SNode text h sh)) /\
    match sh with
    | STerminal _ => True
    | SUnary _ c => consistent c
    | SBinary _ l r => consistent l /\ consistent r
    | SHybrid _ _ _ c => consistent c
    end.
Proof. intros; reflexivity. Qed.

Theorem C06_fields_consistent :
  forall t : tree, consistent (annotate t) /\ forget (annotate t) = t.
Proof. intros; split; [apply consistent_annotate|apply forget_annotate]. Qed.

Theorem C06_root_fields :
  forall t : tree, stext (annotate t) = render t /\ sheight (annotate t) = height t.
Proof. intros; split; [apply annotate_text|apply annotate_height]. Qed.

Theorem C06_consistent_fields :
  forall s : snode,
    consistent s -> stext s = render (forget s) /\ sheight s = height (forget s).
Proof. intros s H; split; [apply consistent_text|apply consistent_height]; exact H. Qed.

(** nodes assembled directly with the constructors from consistent children *)
Theorem C06_mk_atom : forall a : atom,
  consistent (mk_atom a) /\ forget (mk_atom a) = Terminal a.
Proof. intros; split; [apply consistent_mk_atom|reflexivity]. Qed.

Theorem C06_mk_unary : forall (c : snode) (o : unop),
  consistent c ->
  consistent (mk_unary c o) /\ forget (mk_unary c o) = Unary o (forget c).
Proof. intros; split; [apply consistent_mk_unary; assumption|reflexivity]. Qed.

Theorem C06_mk_binary : forall (l r : snode) (o : binop),
  consistent l -> consistent r ->
  consistent (mk_binary l r o) /\ forget (mk_binary l r o) = Binary o (forget l) (forget r).
Proof. intros; split; [apply consistent_mk_binary; assumption|reflexivity]. Qed.

Theorem C06_mk_hybrid : forall (c : snode) (x : str) (d : option str) (o : hybop),
  consistent c ->
  consistent (mk_hybrid c x d o) /\ forget (mk_hybrid c x d o) = Hybrid o x d (forget c).
Proof. intros; split; [apply consistent_mk_hybrid; assumption|reflexivity]. Qed.

(** * 2. Token level *)

Theorem C06_tokens_of_def :
  (forall t, tokens_of t = [tok_of t]) /\
  (forall n, tok_of (Terminal (AProp n)) = TAtom (AProp n)) /\
  (forall x, tok_of (Terminal (AVar x)) = TAtom (AVar x)) /\
  (forall p, tok_of (Terminal (AWild p)) = TAtom (AWild p)) /\
  tok_of (Terminal ATrue) = TAtom (AProp s_True) /\
  tok_of (Terminal AFalse) = TAtom (AProp s_False) /\
  (forall o c, tok_of (Unary o c) = TGroup (TUn o :: tokens_of c)) /\
  (forall o l r, tok_of (Binary o l r) = TGroup (tokens_of l ++ TBin o :: tokens_of r)) /\
  (forall o x d c, tok_of (Hybrid o x d c) = TGroup (THyb o x d :: tokens_of c)).
Proof. repeat split. Qed.

Theorem C06_unreserved_def :
  (forall n, unreserved (Terminal (AProp n)) <-> atom_of_prop_name n = AProp n) /\
  (forall a, (forall n, a <> AProp n) -> unreserved (Terminal a)) /\
  (forall o c, unreserved (Unary o c) <-> unreserved c) /\
  (forall o l r, unreserved (Binary o l r) <-> unreserved l /\ unreserved r) /\
  (forall o x d c, unreserved (Hybrid o x d c) <-> unreserved c).
Proof.
  repeat match goal with |- _ /\ _ => split end; try (intros; reflexivity).
  intros a H; destruct a; try exact I. exfalso; eapply H; reflexivity.
Qed.

Theorem C06_tokens_grammar :
  forall t : tree, unreserved t -> G (tokens_of t) t.
Proof. exact G_tokens_of. Qed.

Theorem C06_tokens_roundtrip :
  forall t : tree, unreserved t -> parse_tokens (tokens_of t) = Ok t.
Proof. exact parse_tokens_of. Qed.

(** * 3. Character level *)

Theorem C06_well_named_def : forall (ea : N -> bool) (ext : bool),
  (forall n, name_ok ea n <-> n <> [] /\ List.Forall (fun c => is_name_char ea c = true) n) /\
  (forall n, well_named ea ext (Terminal (AProp n)) <->
     name_ok ea n /\ head_not_ws n /\ atom_of_prop_name n = AProp n /\ ~ In n op_words) /\
  (forall x, well_named ea ext (Terminal (AVar x)) <-> name_ok ea x) /\
  (forall p, well_named ea ext (Terminal (AWild p)) <-> ext = true /\ name_ok ea p) /\
  (well_named ea ext (Terminal ATrue) <-> True) /\
  (well_named ea ext (Terminal AFalse) <-> True) /\
  (forall o c, well_named ea ext (Unary o c) <-> well_named ea ext c) /\
  (forall o l r, well_named ea ext (Binary o l r) <->
     well_named ea ext l /\ well_named ea ext r) /\
  (forall o x c, well_named ea ext (Hybrid o x None c) <->
     name_ok ea x /\ True /\ well_named ea ext c) /\
  (forall o x l c, well_named ea ext (Hybrid o x (Some l) c) <->
     name_ok ea x /\ (ext = true /\ o <> Jump /\ name_ok ea l) /\ well_named ea ext c).
Proof. intros; repeat match goal with |- _ /\ _ => split end; intros; reflexivity. Qed.

Theorem C06_op_words_def :
  op_words = [[c_E; c_X]; [c_A; c_X]; [c_E; c_F]; [c_A; c_F]; [c_E; c_G]; [c_A; c_G];
              [c_E; c_U]; [c_A; c_U]; [c_E; c_W]; [c_A; c_W]; [c_three]; [c_V]].
Proof. reflexivity. Qed.

Theorem C06_head_not_ws_def :
  head_not_ws [] /\ (forall c n, head_not_ws (c :: n) <-> is_ws c = false).
Proof. split; [exact I|intros; reflexivity]. Qed.

(** below code point 128 condition (c) is automatic *)
Theorem C06_head_not_ws_ascii : forall (ea : N -> bool) (n : str),
  List.Forall (fun c => (c < 128)%N) n ->
  List.Forall (fun c => is_name_char ea c = true) n -> head_not_ws n.
Proof. exact head_not_ws_ascii. Qed.

Theorem C06_well_named_unreserved : forall (ea : N -> bool) (ext : bool) (t : tree),
  well_named ea ext t -> unreserved t.
Proof. exact well_named_unreserved. Qed.

(** the lemmas about the tokenizer on concatenations *)
Theorem C06_collect_name_app : forall (ea : N -> bool) (n rest : str),
  List.Forall (fun c => is_name_char ea c = true) n ->
  peek_name_char ea rest = false ->
  collect_name ea (n ++ rest) = (n, rest).
Proof. exact collect_name_app. Qed.

(** one step of [tok] reads one rendered subformula (followed by a non-name character) *)
Theorem C06_tok_render : forall (ea : N -> bool) (ext : bool) (t : tree),
  well_named ea ext t ->
  forall (f : nat) (rest : str) (top : bool) (acc : list token),
    peek_name_char ea rest = false -> length (render t) <= S f ->
    tok ea (S f) (render t ++ rest) top ext acc = tok ea f rest top ext (tok_of t :: acc).
Proof.
  intros ea ext t Hw f rest top acc Hr Hf; apply tok_render; auto;
    pose proof (need_lt ea ext t Hw); lia.
Qed.

Theorem C06_tokenize_render : forall (ea : N -> bool) (ext : bool) (t : tree),
  well_named ea ext t -> tokenize ea ext (render t) = Ok (tokens_of t).
Proof. exact tokenize_render. Qed.

(** the round trip, in the extended syntax ... *)
Theorem C06_roundtrip : forall (ea : N -> bool) (t : tree),
  well_named ea true t -> parse_formula ea true (render t) = Ok t.
Proof. intros ea t; exact (parse_formula_render ea true t). Qed.

(** ... and in either syntax ([well_named ea false t] excludes wild cards and domains) *)
Theorem C06_roundtrip_ext : forall (ea : N -> bool) (ext : bool) (t : tree),
  well_named ea ext t -> parse_formula ea ext (render t) = Ok t.
Proof. exact parse_formula_render. Qed.

Theorem C06_render_injective : forall (ea : N -> bool) (ext : bool) (t t' : tree),
  well_named ea ext t -> well_named ea ext t' -> render t = render t' -> t = t'.
Proof. exact render_injective. Qed.

(** the condition on proposition names is exact *)
Theorem C06_prop_condition_exact : forall (ea : N -> bool) (ext : bool) (n : str),
  name_ok ea n -> head_not_ws n ->
  (parse_formula ea ext (render (Terminal (AProp n))) = Ok (Terminal (AProp n))
   <-> atom_of_prop_name n = AProp n /\ ~ In n op_words).
Proof. exact prop_roundtrip_iff. Qed.

Theorem C06_leading_ws_dropped : forall (ea : N -> bool) (ext : bool) (c : N) (cs : str),
  is_ws c = true -> parse_formula ea ext (c :: cs) = parse_formula ea ext cs.
Proof. exact leading_ws_dropped. Qed.

(** [well_named] can be checked by computation *)
Theorem C06_well_named_check : forall (ea : N -> bool) (ext : bool) (t : tree),
  well_namedb ea ext t = true -> well_named ea ext t.
Proof. exact well_namedb_sound. Qed.

(** * Examples (non-vacuity) and counterexamples (necessity of the side conditions) *)

Definition ex_ea : N -> bool := fun _ => false.
Definition ex_x : str := [120%N].          (* x *)
Definition ex_d : str := [100%N; 49%N].    (* d1 *)
(** (!{x}: ((AG EXa) EU (~(3{x} in %d1%: ({x} & (%d1% => True)))))) *)
Definition ex_tree : tree :=
  Hybrid Bind ex_x None
    (Binary EU (Unary AG (Terminal (AProp [c_E; c_X; 97%N])))
       (Unary Not (Hybrid Exists ex_x (Some ex_d)
          (Binary And (Terminal (AVar ex_x))
             (Binary Imp (Terminal (AWild ex_d)) (Terminal ATrue)))))).

Example C06_ex_well_named : well_named ex_ea true ex_tree.
Proof. apply C06_well_named_check. reflexivity. Qed.

Example C06_ex_roundtrip : parse_formula ex_ea true (render ex_tree) = Ok ex_tree.
Proof. apply C06_roundtrip. exact C06_ex_well_named. Qed.

(** a proposition called EX is printed as "EX" and read as the operator *)
Example C06_ex_operator_word :
  tokenize ex_ea true (render (Terminal (AProp [c_E; c_X]))) = Ok [TUn EX].
Proof. reflexivity. Qed.

(** a proposition called true comes back as the constant *)
Example C06_ex_reserved :
  parse_formula ex_ea true (render (Terminal (AProp s_true))) = Ok (Terminal ATrue).
Proof. reflexivity. Qed.

(** the domain of a jump is printed but cannot be read *)
Example C06_ex_jump_domain :
  parse_formula ex_ea true (render (Hybrid Jump ex_x (Some ex_d) (Terminal ATrue)))
  = Err ELex.
Proof. reflexivity. Qed.

(** wild cards and domains cannot be read in the plain syntax *)
Example C06_ex_plain_syntax :
  parse_formula ex_ea false (render (Terminal (AWild ex_d))) = Err ELex /\
  parse_formula ex_ea false (render (Hybrid Bind ex_x (Some ex_d) (Terminal ATrue)))
  = Err ELex.
Proof. split; reflexivity. Qed.

(** names must be non-empty words of name characters: "{}" and "{a b}" are rejected *)
Example C06_ex_bad_names :
  parse_formula ex_ea true (render (Terminal (AVar []))) = Err ELex /\
  parse_formula ex_ea true (render (Terminal (AVar [97%N; c_space; 98%N]))) = Err ELex.
Proof. split; reflexivity. Qed.

(** without the conditions [render] is not injective: the proposition "True" and the
    constant print the same *)
Example C06_ex_not_injective :
  render (Terminal (AProp s_True)) = render (Terminal ATrue).
Proof. reflexivity. Qed.

Print Assumptions C06_consistent_def.
Print Assumptions C06_fields_consistent.
Print Assumptions C06_root_fields.
Print Assumptions C06_consistent_fields.
Print Assumptions C06_mk_atom.
Print Assumptions C06_mk_unary.
Print Assumptions C06_mk_binary.
Print Assumptions C06_mk_hybrid.
Print Assumptions C06_tokens_of_def.
Print Assumptions C06_unreserved_def.
Print Assumptions C06_tokens_grammar.
Print Assumptions C06_tokens_roundtrip.
Print Assumptions C06_well_named_def.
Print Assumptions C06_op_words_def.
Print Assumptions C06_head_not_ws_def.
Print Assumptions C06_head_not_ws_ascii.
Print Assumptions C06_well_named_unreserved.
Print Assumptions C06_collect_name_app.
Print Assumptions C06_tok_render.
Print Assumptions C06_tokenize_render.
Print Assumptions C06_roundtrip.
Print Assumptions C06_roundtrip_ext.
Print Assumptions C06_render_injective.
Print Assumptions C06_prop_condition_exact.
Print Assumptions C06_leading_ws_dropped.
Print Assumptions C06_well_named_check.
Print Assumptions C06_ex_well_named.
Print Assumptions C06_ex_roundtrip.
Print Assumptions C06_ex_operator_word.
Print Assumptions C06_ex_reserved.
Print Assumptions C06_ex_jump_domain.
Print Assumptions C06_ex_plain_syntax.
Print Assumptions C06_ex_bad_names.
Print Assumptions C06_ex_not_injective.
