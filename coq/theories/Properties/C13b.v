(** C13b -- path semantics: the fixed-point operators of the specification (Spec/Kripke.v)
    coincide with their path definitions (Spec/Paths.v), and so do the sets computed by the
    model.  Statements only; proofs in Proofs/PathFacts.v, PathDec.v, PathLPO.v.

    Hypotheses on the argument predicates P, Q:
      respects P            P does not distinguish pointwise equal valuations (veq);
      forall u, P u \/ ~P u decidability, needed exactly where a path has to be constructed
                            (EG, EW left to right; AU right to left) or where the unfolding
                            "Q or (P and AX ..)" has to be split (AW right to left, Q only).
    Membership in a computed set has both properties.  Decidability of the operators
    themselves is derived from decidability of the arguments (the C13b_dec theorems): the valuations
    reachable from a valuation differ from it in the n state bits only. *)
From HCTL Require Import Base TT Ops Kripke Paths.
From HCTL Require Import SemFacts Laws PathFacts PathDec PathLPO.

Local Notation dec P := (forall u : val, P u \/ ~ P u).
Local Notation inU G U A := (forall v, mem (g_L G) A v = true -> mem (g_L G) U v = true).
Local Notation st G U := (steady_of G U).
Local Notation Mem G A := (fun v0 : val => mem (g_L G) A v0 = true).

(** ---- the transition relation is total: every valuation starts a path ---- *)
Theorem C13b_step_total : forall G v, exists w, step G v w.
Proof. exact step_total. Qed.

Theorem C13b_path_total : forall G v, exists pi, path G pi /\ pi 0 = v.
Proof. exact path_total. Qed.

(** ---- E[P U Q] ---- *)
Theorem C13b_eu : forall G (P Q : val -> Prop), respects P -> respects Q ->
  forall v, EUs G P Q v <-> EU_p G P Q v.
Proof. exact EU_paths. Qed.

Theorem C13b_eu_lr : forall G (P Q : val -> Prop) v, EUs G P Q v -> EU_p G P Q v.
Proof. exact EUs_EU_p. Qed.

(** ---- A[P U Q] ---- *)
Theorem C13b_au_lr : forall G (P Q : val -> Prop) v, respects P -> respects Q ->
  AUs G P Q v -> AU_p G P Q v.
Proof. exact AUs_AU_p. Qed.

Theorem C13b_au_rl : forall G (P Q : val -> Prop) v, respects P -> respects Q ->
  dec (AUs G P Q) -> AU_p G P Q v -> AUs G P Q v.
Proof. exact AU_p_AUs. Qed.

Theorem C13b_au : forall G (P Q : val -> Prop), respects P -> respects Q -> dec P -> dec Q ->
  forall v, AUs G P Q v <-> AU_p G P Q v.
Proof. exact AU_paths. Qed.

(** ---- EG P ---- *)
Theorem C13b_eg_lr : forall G (P : val -> Prop) v, respects P -> dec (EGs G P) ->
  EGs G P v -> EG_p G P v.
Proof. exact EGs_EG_p. Qed.

Theorem C13b_eg_rl : forall G (P : val -> Prop) v, respects P -> EG_p G P v -> EGs G P v.
Proof. exact EG_p_EGs. Qed.

Theorem C13b_eg : forall G (P : val -> Prop), respects P -> dec P ->
  forall v, EGs G P v <-> EG_p G P v.
Proof. exact EG_paths. Qed.

(** ---- AG P ---- *)
Theorem C13b_ag : forall G (P : val -> Prop), respects P ->
  forall v, AGs G P v <-> AG_p G P v.
Proof. exact AG_paths. Qed.

(** ---- E[P W Q] ---- *)
Theorem C13b_ew_lr : forall G (P Q : val -> Prop) v, respects P ->
  dec (EUs G P Q) -> dec (EGs G P) -> EWs G P Q v -> EW_p G P Q v.
Proof. exact EWs_EW_p. Qed.

Theorem C13b_ew_rl : forall G (P Q : val -> Prop) v, respects P -> respects Q ->
  EW_p G P Q v -> EWs G P Q v.
Proof. exact EW_p_EWs. Qed.

Theorem C13b_ew : forall G (P Q : val -> Prop), respects P -> respects Q -> dec P -> dec Q ->
  forall v, EWs G P Q v <-> EW_p G P Q v.
Proof. exact EW_paths. Qed.

(** ---- A[P W Q] ----
    Full statement, NOT proved:

      forall G P Q, respects P -> respects Q -> dec P -> dec Q ->
        forall v, AWs G P Q v <-> AW_p G P Q v.

    Right to left holds (C13b_aw_rl).  Left to right must produce, for an ARBITRARY given
    path, one of the disjuncts "P until Q" / "always P", i.e. decide whether Q ever holds on
    an infinite sequence: for all networks this is equivalent to the limited principle of
    omniscience (C13b_aw_lr_is_LPO), so it has no proof in Coq without axioms.  Proved
    instead: the equivalence with the two classically equivalent forms of "every path
    satisfies P weak-until Q" -- [wuntil] (P holds as long as Q has not held) and the double
    negation of the disjunction -- and the disjunctive form under the omniscience
    hypothesis for Q on paths (C13b_aw_partial). *)
Theorem C13b_aw_rl : forall G (P Q : val -> Prop), dec Q ->
  forall v, AW_p G P Q v -> AWs G P Q v.
Proof. exact AW_paths_rl. Qed.

Theorem C13b_aw_weak : forall G (P Q : val -> Prop), respects P -> respects Q -> dec Q ->
  forall v, AWs G P Q v <-> AW_w G P Q v.
Proof. exact AW_weak_paths. Qed.

Theorem C13b_aw_nn : forall G (P Q : val -> Prop), respects P -> respects Q -> dec P -> dec Q ->
  forall v, AWs G P Q v <-> AW_nn G P Q v.
Proof. exact AW_nn_paths. Qed.

Theorem C13b_aw_partial : forall G (P Q : val -> Prop), respects P -> respects Q -> dec Q ->
  forall v, (forall pi, path G pi -> (exists j, Q (pi j)) \/ (forall j, ~ Q (pi j))) ->
  (AWs G P Q v <-> AW_p G P Q v).
Proof. exact AW_paths_omniscient. Qed.

Theorem C13b_aw_lr_is_LPO :
  (forall G (P Q : val -> Prop) v, respects P -> respects Q -> dec P -> dec Q ->
     AWs G P Q v -> AW_p G P Q v) ->
  forall a : nat -> bool, (exists k, a k = true) \/ (forall k, a k = false).
Proof. exact AW_paths_lr_implies_LPO. Qed.

(** the three forms of weak until on one path *)
Theorem C13b_until_wuntil : forall (P Q : val -> Prop) (pi : nat -> val),
  until P Q pi \/ always P pi -> wuntil P Q pi.
Proof. exact until_wuntil. Qed.

Theorem C13b_wuntil_nn : forall (P Q : val -> Prop) (pi : nat -> val), dec P -> dec Q ->
  (wuntil P Q pi <-> ~ ~ (until P Q pi \/ always P pi)).
Proof. intros P Q pi PD QD; split; [apply wuntil_nn | apply nn_wuntil]; assumption. Qed.

(** ---- the operators are decidable for decidable arguments ---- *)
Theorem C13b_dec_eu : forall G (P Q : val -> Prop), respects P -> respects Q -> dec P -> dec Q ->
  dec (EUs G P Q).
Proof. exact EUs_dec. Qed.
Theorem C13b_dec_au : forall G (P Q : val -> Prop), respects P -> respects Q -> dec P -> dec Q ->
  dec (AUs G P Q).
Proof. exact AUs_dec. Qed.
Theorem C13b_dec_ew : forall G (P Q : val -> Prop), respects P -> respects Q -> dec P -> dec Q ->
  dec (EWs G P Q).
Proof. exact EWs_dec. Qed.
Theorem C13b_dec_aw : forall G (P Q : val -> Prop), respects P -> respects Q -> dec P -> dec Q ->
  dec (AWs G P Q).
Proof. exact AWs_dec. Qed.
Theorem C13b_dec_eg : forall G (P : val -> Prop), respects P -> dec P -> dec (EGs G P).
Proof. intros G P RP PD u; apply EGs_dec; assumption. Qed.
Theorem C13b_dec_ag : forall G (P : val -> Prop), respects P -> dec P -> dec (AGs G P).
Proof. intros G P RP PD u; apply AGs_dec; assumption. Qed.

(** ---- the sets computed by the model, for arbitrary argument sets inside the unit ---- *)
(** a state satisfies phi EW psi exactly when some path from it satisfies phi until psi or
    satisfies phi forever *)
Theorem C13b_ew_model : forall G U, wf_graph G U -> forall S T R,
  shaped (g_L G) S -> inU G U S -> shaped (g_L G) T -> inU G U T ->
  eval_ew G U S T (st G U) = Ok R ->
  forall v, mem (g_L G) R v = true <-> (mem (g_L G) U v = true /\ EW_p G (Mem G S) (Mem G T) v).
Proof. exact ew_paths. Qed.

(** ... and phi AW psi exactly when every path from it does.
    Full statement, NOT proved (left to right is again the principle of omniscience, even
    for well-formed networks: C13b_aw_model_lr_is_LPO):

      ... eval_aw G U S T = Ok R ->
      forall v, mem (g_L G) R v = true <-> (mem (g_L G) U v = true /\ AW_p G (Mem G S) (Mem G T) v) *)
Theorem C13b_aw_model_weak : forall G U, wf_graph G U -> forall S T R,
  shaped (g_L G) S -> inU G U S -> shaped (g_L G) T -> inU G U T ->
  eval_aw G U S T = Ok R ->
  forall v, mem (g_L G) R v = true <-> (mem (g_L G) U v = true /\ AW_w G (Mem G S) (Mem G T) v).
Proof. exact aw_paths_weak. Qed.

Theorem C13b_aw_model_nn : forall G U, wf_graph G U -> forall S T R,
  shaped (g_L G) S -> inU G U S -> shaped (g_L G) T -> inU G U T ->
  eval_aw G U S T = Ok R ->
  forall v, mem (g_L G) R v = true <-> (mem (g_L G) U v = true /\ AW_nn G (Mem G S) (Mem G T) v).
Proof. exact aw_paths_nn. Qed.

Theorem C13b_aw_model_rl : forall G U, wf_graph G U -> forall S T R,
  shaped (g_L G) S -> inU G U S -> shaped (g_L G) T -> inU G U T ->
  eval_aw G U S T = Ok R ->
  forall v, mem (g_L G) U v = true -> AW_p G (Mem G S) (Mem G T) v -> mem (g_L G) R v = true.
Proof. exact aw_paths_rl. Qed.

Theorem C13b_aw_model_partial : forall G U, wf_graph G U -> forall S T R,
  shaped (g_L G) S -> inU G U S -> shaped (g_L G) T -> inU G U T ->
  eval_aw G U S T = Ok R ->
  (forall pi, path G pi -> (exists j, Mem G T (pi j)) \/ (forall j, ~ Mem G T (pi j))) ->
  forall v, mem (g_L G) R v = true <-> (mem (g_L G) U v = true /\ AW_p G (Mem G S) (Mem G T) v).
Proof. exact aw_paths_omniscient. Qed.

Theorem C13b_aw_model_lr_is_LPO :
  (forall G U S T R v, wf_graph G U ->
     shaped (g_L G) S -> inU G U S -> shaped (g_L G) T -> inU G U T ->
     eval_aw G U S T = Ok R -> mem (g_L G) R v = true -> AW_p G (Mem G S) (Mem G T) v) ->
  forall a : nat -> bool, (exists k, a k = true) \/ (forall k, a k = false).
Proof. exact aw_model_lr_implies_LPO. Qed.

(** the other temporal operators of the model *)
Theorem C13b_eu_model : forall G U, wf_graph G U -> forall S T R,
  shaped (g_L G) S -> inU G U S -> shaped (g_L G) T -> inU G U T ->
  eval_eu_saturated G S T = Ok R ->
  forall v, mem (g_L G) R v = true <-> (mem (g_L G) U v = true /\ EU_p G (Mem G S) (Mem G T) v).
Proof. exact eu_paths. Qed.

Theorem C13b_au_model : forall G U, wf_graph G U -> forall S T R,
  shaped (g_L G) S -> inU G U S -> shaped (g_L G) T -> inU G U T ->
  eval_au G U S T (st G U) = Ok R ->
  forall v, mem (g_L G) R v = true <-> (mem (g_L G) U v = true /\ AU_p G (Mem G S) (Mem G T) v).
Proof. exact au_paths. Qed.

Theorem C13b_eg_model : forall G U, wf_graph G U -> forall S R,
  shaped (g_L G) S -> inU G U S -> eval_eg G S (st G U) = Ok R ->
  forall v, mem (g_L G) R v = true <-> (mem (g_L G) U v = true /\ EG_p G (Mem G S) v).
Proof. exact eg_paths. Qed.

Theorem C13b_ag_model : forall G U, wf_graph G U -> forall S R,
  shaped (g_L G) S -> inU G U S -> eval_ag G U S = Ok R ->
  forall v, mem (g_L G) R v = true <-> (mem (g_L G) U v = true /\ AG_p G (Mem G S) v).
Proof. exact ag_paths. Qed.

Theorem C13b_ef_model : forall G U, wf_graph G U -> forall S R,
  shaped (g_L G) S -> inU G U S -> eval_ef_saturated G U S = Ok R ->
  forall v, mem (g_L G) R v = true <-> (mem (g_L G) U v = true /\ EF_p G (Mem G S) v).
Proof. exact ef_paths. Qed.

Theorem C13b_af_model : forall G U, wf_graph G U -> forall S R,
  shaped (g_L G) S -> inU G U S -> eval_af G U S (st G U) = Ok R ->
  forall v, mem (g_L G) R v = true <-> (mem (g_L G) U v = true /\ AF_p G (Mem G S) v).
Proof. exact af_paths. Qed.

Print Assumptions C13b_step_total.
Print Assumptions C13b_path_total.
Print Assumptions C13b_eu.
Print Assumptions C13b_eu_lr.
Print Assumptions C13b_au_lr.
Print Assumptions C13b_au_rl.
Print Assumptions C13b_au.
Print Assumptions C13b_eg_lr.
Print Assumptions C13b_eg_rl.
Print Assumptions C13b_eg.
Print Assumptions C13b_ag.
Print Assumptions C13b_ew_lr.
Print Assumptions C13b_ew_rl.
Print Assumptions C13b_ew.
Print Assumptions C13b_aw_rl.
Print Assumptions C13b_aw_weak.
Print Assumptions C13b_aw_nn.
Print Assumptions C13b_aw_partial.
Print Assumptions C13b_aw_lr_is_LPO.
Print Assumptions C13b_until_wuntil.
Print Assumptions C13b_wuntil_nn.
Print Assumptions C13b_dec_eu.
Print Assumptions C13b_dec_au.
Print Assumptions C13b_dec_ew.
Print Assumptions C13b_dec_aw.
Print Assumptions C13b_dec_eg.
Print Assumptions C13b_dec_ag.
Print Assumptions C13b_ew_model.
Print Assumptions C13b_aw_model_weak.
Print Assumptions C13b_aw_model_nn.
Print Assumptions C13b_aw_model_rl.
Print Assumptions C13b_aw_model_partial.
Print Assumptions C13b_aw_model_lr_is_LPO.
Print Assumptions C13b_eu_model.
Print Assumptions C13b_au_model.
Print Assumptions C13b_eg_model.
Print Assumptions C13b_ag_model.
Print Assumptions C13b_ef_model.
Print Assumptions C13b_af_model.
