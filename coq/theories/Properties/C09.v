(** C09 -- canonical forms identify exactly the sub-formulae equal up to renaming.
    Statements only; the proofs are in Proofs/CanonFacts.v, Proofs/CanonAlpha.v and
    Proofs/MarkDupFacts.v.

    Vocabulary.
    - [canonize cs] (Model/Canon.v): the character-level pass over a rendered (sub-)formula;
      it returns the canonical text and the renaming map.
    - [ctree t (cnt, ren)] (CanonFacts.v): the tree-level canoniser, threading the counter and
      the map in the order of the rendered text.  [cbind x s] is the step of a binder (fresh
      name [canon_name cnt], the map entry of [x] is overwritten), [cocc x s] the step of a
      variable occurrence or jump target (mapped name; a fresh one, recorded, if there is none).
      The map is never restored when a scope is left, exactly like [canon_loop].
    - [canon_ok t]: the side condition of the commutation.  Variable names (binders,
      occurrences, jump targets) contain no '}' ([var_ok]); proposition, wild-card and domain
      names contain none of '(' ')' '{' ([plain]).  Nothing else is needed: a proposition
      ending in '!' '3' 'V' is followed by ' ' or ')' or the end of the text, never by '{'.
      Every [well_named] tree (the side condition of the parser round trip C06) is [canon_ok].
    - [open_db t] (CanonAlpha.v): the open de Bruijn form.  A bound occurrence is the number of
      quantifiers between it and its binder, a free one is the rank of its first occurrence in
      reading order (left before right, jump target before the body of the jump); binders
      carry no name; operators, propositions, wild-cards and domains are literal.
      [alpha_eq t1 t2 := open_db t1 = open_db t2]: equality up to a consistent (injective)
      renaming of the bound and of the free state variables.
    - [depth_named d t] (PrepFacts.v): [t] is a sub-formula, found below [d] quantifiers, of a
      preprocessed formula.
    - [free_in x t] / [occurs x t]: [x] occurs free in [t] / is the name of a binder, an
      occurrence or a jump target of [t]. *)
From HCTL Require Import Base Syntax Preprocess Canon MarkDup.
From HCTL Require Import PrepFacts RoundTrip CanonFacts CanonAlpha MarkDupFacts.

(** ** 0. definitions restated *)

Theorem C09_ctree_def :
  forall (t : tree) (s : cstate),
    ctree t s =
    match t with
    | Terminal (AVar x) => let (cn, s') := cocc x s in (Terminal (AVar cn), s')
    | Terminal _ => (t, s)
    | Unary o c => let (c', s') := ctree c s in (Unary o c', s')
    | Binary o l r =>
        let (l', s1) := ctree l s in
        let (r', s2) := ctree r s1 in
        (Binary o l' r', s2)
    | Hybrid o x d c =>
        let (cn, s1) := if is_quantifier o then cbind x s else cocc x s in
        let (c', s2) := ctree c s1 in
        (Hybrid o cn d c', s2)
    end.
Proof. intros t s. destruct t as [[]| | |]; reflexivity. Qed.

Theorem C09_cbind_cocc_def :
  forall (x : str) (cnt : N) (ren : list (str * str)),
    cbind x (cnt, ren)
    = (canon_name cnt, ((cnt + 1)%N, ainsert str_eqb x (canon_name cnt) ren))
    /\ cocc x (cnt, ren)
       = match alookup str_eqb x ren with
         | Some cn => (cn, (cnt, ren))
         | None => cbind x (cnt, ren)
         end.
Proof. intros x cnt ren. split; reflexivity. Qed.

Theorem C09_canon_ok_def :
  forall t : tree,
    canon_ok t <->
    match t with
    | Terminal (AProp p) | Terminal (AWild p) =>
        List.Forall (fun c => c <> c_lpar /\ c <> c_rpar /\ c <> c_lbrace) p
    | Terminal (AVar x) => ~ In c_rbrace x
    | Terminal _ => True
    | Unary _ c => canon_ok c
    | Binary _ l r => canon_ok l /\ canon_ok r
    | Hybrid _ x d c =>
        ~ In c_rbrace x
        /\ match d with
           | Some l => List.Forall (fun c => c <> c_lpar /\ c <> c_rpar /\ c <> c_lbrace) l
           | None => True
           end
        /\ canon_ok c
    end.
Proof. intros t. destruct t as [[]| | |o x [l|] c]; reflexivity. Qed.

Theorem C09_well_named_canon_ok :
  forall (ext_alnum : N -> bool) (ext : bool) (t : tree),
    well_named ext_alnum ext t -> canon_ok t.
Proof. exact well_named_canon_ok. Qed.

(** ** 1. the character-level pass is the tree-level canoniser *)

Theorem C09_canon_commutes :
  forall t : tree,
    canon_ok t ->
    canonize (render t)
    = (render (fst (ctree t (0%N, []))), snd (snd (ctree t (0%N, [])))).
Proof. exact canon_commutes. Qed.

(** the same in the middle of a text, for any state of the loop (the rest of the text must not
    start with '{'); [cl] is [canon_loop] with enough fuel and the output in reading order *)
Theorem C09_canon_loop_render :
  forall (t : tree) (rest : str) (ren : list (str * str)) (pre : str) (cnt : N) (depth fuel : nat),
    canon_ok t ->
    match rest with c :: _ => c <> c_lbrace | [] => True end ->
    length (render t ++ rest) < fuel ->
    canon_loop fuel (render t ++ rest) ren (rev pre) cnt depth
    = canon_loop (S (length rest)) rest (snd (snd (ctree t (cnt, ren))))
                 (rev (pre ++ render (fst (ctree t (cnt, ren)))))
                 (fst (snd (ctree t (cnt, ren)))) depth.
Proof. intros; eapply canon_loop_render; eauto. Qed.

(** ** 2. equal canonical texts <-> equal up to renaming *)

Theorem C09_canon_iff_alpha :
  forall (ext_alnum : N -> bool) (ext : bool) (d1 d2 : nat) (t1 t2 : tree),
    well_named ext_alnum ext t1 -> well_named ext_alnum ext t2 ->
    depth_named d1 t1 -> depth_named d2 t2 ->
    (fst (canonize (render t1)) = fst (canonize (render t2)) <-> alpha_eq t1 t2).
Proof. exact canon_iff_alpha. Qed.

(** the direction caching relies on *)
Theorem C09_canon_text_alpha :
  forall (ext_alnum : N -> bool) (ext : bool) (d1 d2 : nat) (t1 t2 : tree),
    well_named ext_alnum ext t1 -> well_named ext_alnum ext t2 ->
    depth_named d1 t1 -> depth_named d2 t2 ->
    fst (canonize (render t1)) = fst (canonize (render t2)) -> open_db t1 = open_db t2.
Proof. exact canon_text_alpha. Qed.

(** the converse needs the weaker side condition only *)
Theorem C09_alpha_canon_text :
  forall (d1 d2 : nat) (t1 t2 : tree),
    canon_ok t1 -> canon_ok t2 -> depth_named d1 t1 -> depth_named d2 t2 ->
    open_db t1 = open_db t2 -> fst (canonize (render t1)) = fst (canonize (render t2)).
Proof. exact alpha_canon_text. Qed.

(** tree level: the canonical tree is a function of the open de Bruijn form, and has the same
    open de Bruijn form *)
Theorem C09_canon_tree_of_open_db :
  forall (d : nat) (t : tree),
    depth_named d t -> fst (ctree t (0%N, [])) = fst (cto [] (open_db t) (0%N, [])).
Proof. exact canon_tree_of_open_db. Qed.

Theorem C09_open_db_canon_tree :
  forall (d : nat) (t : tree),
    depth_named d t -> open_db (fst (ctree t (0%N, []))) = open_db t.
Proof. exact open_db_canon_tree. Qed.

(** the open de Bruijn form forgets the names of the free variables of [db] (C07) only *)
Theorem C09_db_alpha_eq :
  forall t1 t2 : tree, db [] t1 = db [] t2 -> alpha_eq t1 t2.
Proof. exact db_alpha_eq. Qed.

(** [alpha_eq] does identify renamed formulae: [vmap sigma t] applies [sigma] to every variable
    name of [t] (binders, occurrences, jump targets) *)
Theorem C09_alpha_eq_renaming :
  forall (sigma : str -> str) (t : tree),
    (forall x y, sigma x = sigma y -> x = y) -> alpha_eq (vmap sigma t) t.
Proof. intros; eapply alpha_eq_vmap; eauto. Qed.

(** ** 3. the renaming map *)

Theorem C09_renaming_injective :
  forall t : tree,
    canon_ok t ->
    (forall x, free_in x t ->
       exists i, alookup str_eqb x (snd (canonize (render t))) = Some (canon_name i))
    /\ (forall x y cn, alookup str_eqb x (snd (canonize (render t))) = Some cn ->
                       alookup str_eqb y (snd (canonize (render t))) = Some cn -> x = y).
Proof. exact canon_renaming_injective. Qed.

(** every name met (bound or free) is a key; the canonical names are pairwise distinct *)
Theorem C09_renaming_keys :
  forall t : tree,
    forall x, occurs x t ->
      exists i, alookup str_eqb x (snd (snd (ctree t (0%N, [])))) = Some (canon_name i).
Proof. intros t. exact (proj1 (canon_map_spec t)). Qed.

Theorem C09_canon_name_injective : forall a b : N, canon_name a = canon_name b -> a = b.
Proof. exact canon_name_inj. Qed.

(** ** 4. idempotence *)

Theorem C09_idempotent :
  forall t : tree,
    canon_ok t ->
    fst (canonize (fst (canonize (render t)))) = fst (canonize (render t)).
Proof. exact canon_idempotent. Qed.

(** ** 5. duplicate marking *)

(** [occ roots (t, doms)]: the node is reachable from the roots through [children]
    (so [t] is a sub-formula of a root, [C09_occ_subtree]); [node_at roots p]: the node at
    position [p] (index of a root, then child indices); [has_key roots k p]: there is a node
    at [p] and its [node_key] is [k] *)
Theorem C09_mark_duplicates_sound :
  forall (roots : list tree) (k : key) (n : nat),
    In (k, n) (mark_duplicates roots) ->
    1 <= n /\ exists t doms, occ roots (t, doms) /\ fst (node_key t doms) = k.
Proof. exact mark_duplicates_sound. Qed.

Theorem C09_mark_duplicates_count :
  forall (roots : list tree) (k : key) (n : nat),
    In (k, n) (mark_duplicates roots) ->
    1 <= n /\ exists ps : list pos,
                NoDup ps /\ length ps = S n
                /\ forall p, In p ps ->
                     exists t doms, node_at roots p = Some (t, doms)
                                    /\ fst (node_key t doms) = k.
Proof. exact mark_duplicates_count. Qed.

Theorem C09_occ_subtree :
  forall (roots : list tree) (n : hnode),
    occ roots n -> exists t, In t roots /\ subtree (fst n) t.
Proof. exact occ_subtree. Qed.

Theorem C09_node_at_occ :
  forall (roots : list tree) (p : pos) (x : hnode), node_at roots p = Some x -> occ roots x.
Proof. exact node_at_occ. Qed.

(** * Examples (non-vacuity) and counterexamples (necessity of the side conditions) *)

Definition ex_p : str := [112%N].              (* p *)
Definition ex_x1 : str := xs 1.                (* x *)
Definition ex_x2 : str := xs 2.                (* xx *)
Definition ex_x3 : str := xs 3.                (* xxx *)
Definition ex_var (x : str) : tree := Terminal (AVar x).

(** sub-formulae at depth 2 of  !{x}: !{xx}: (... & ...):
    [(3{xxx}: (@{x}: ({xxx} & {xx})))]  and  [(3{xxx}: (@{xx}: ({xxx} & {x})))] *)
Definition ex_t1 : tree :=
  Hybrid Exists ex_x3 None
    (Hybrid Jump ex_x1 None (Binary And (ex_var ex_x3) (ex_var ex_x2))).
Definition ex_t2 : tree :=
  Hybrid Exists ex_x3 None
    (Hybrid Jump ex_x2 None (Binary And (ex_var ex_x3) (ex_var ex_x1))).
(** the same with the free variable used twice *)
Definition ex_t3 : tree :=
  Hybrid Exists ex_x3 None
    (Hybrid Jump ex_x1 None (Binary And (ex_var ex_x3) (ex_var ex_x1))).

Example C09_ex_depth_named : depth_named 2 ex_t1 /\ depth_named 2 ex_t2 /\ depth_named 2 ex_t3.
Proof.
  cbn. repeat split; try reflexivity;
    first [exists 0; split; [lia | reflexivity] | exists 1; split; [lia | reflexivity]
          | exists 2; split; [lia | reflexivity]].
Qed.

(** "(3{var0}: (@{var1}: ({var0} & {var2})))" *)
Example C09_ex_text :
  fst (canonize (render ex_t1))
  = [40; 51; 123; 118; 97; 114; 48; 125; 58; 32; 40; 64; 123; 118; 97; 114; 49; 125; 58; 32;
     40; 123; 118; 97; 114; 48; 125; 32; 38; 32; 123; 118; 97; 114; 50; 125; 41; 41; 41]%N.
Proof. vm_compute. reflexivity. Qed.

Example C09_ex_same :
  fst (canonize (render ex_t1)) = fst (canonize (render ex_t2)) /\ alpha_eq ex_t1 ex_t2.
Proof. split; vm_compute; reflexivity. Qed.

Example C09_ex_different :
  fst (canonize (render ex_t1)) <> fst (canonize (render ex_t3)) /\ ~ alpha_eq ex_t1 ex_t3.
Proof. split; vm_compute; discriminate. Qed.

(** the map of [ex_t1]: xx -> var2, x -> var1, xxx -> var0 *)
Example C09_ex_map :
  snd (canonize (render ex_t1))
  = [(ex_x2, canon_name 2); (ex_x1, canon_name 1); (ex_x3, canon_name 0)].
Proof. vm_compute. reflexivity. Qed.

(** without [depth_named] the equivalence fails: the map is not restored when a scope is left.
    [((!{x}: {x}) & {x})] and [((!{x}: {x}) & {y})] are equal up to renaming (the last variable is
    free in both) but have different canonical texts *)
Definition ex_y : str := [121%N].
Definition ex_u1 : tree :=
  Binary And (Hybrid Bind ex_x1 None (ex_var ex_x1)) (ex_var ex_x1).
Definition ex_u2 : tree :=
  Binary And (Hybrid Bind ex_x1 None (ex_var ex_x1)) (ex_var ex_y).

Example C09_ex_scope_not_restored :
  alpha_eq ex_u1 ex_u2 /\ fst (canonize (render ex_u1)) <> fst (canonize (render ex_u2)).
Proof. split; [vm_compute; reflexivity | vm_compute; discriminate]. Qed.

(** the side condition of the commutation is needed: a proposition named "{p}" is renamed *)
Definition ex_bad : tree := Terminal (AProp (c_lbrace :: ex_p ++ [c_rbrace])).

Example C09_ex_brace_in_proposition :
  ~ canon_ok ex_bad
  /\ canonize (render ex_bad)
     <> (render (fst (ctree ex_bad (0%N, []))), snd (snd (ctree ex_bad (0%N, [])))).
Proof.
  split.
  - intro H. cbn in H. inversion H as [|c l Hc _]. apply Hc. reflexivity.
  - vm_compute. discriminate.
Qed.

(** ... a proposition named "p)q" stops the loop, a variable named "p}q" is cut at the brace *)
Definition ex_bad_rpar : tree := Terminal (AProp (ex_p ++ c_rpar :: ex_p)).
Definition ex_bad_rbrace : tree := ex_var (ex_p ++ c_rbrace :: ex_p).

Example C09_ex_rpar_in_proposition :
  canonize (render ex_bad_rpar)
  <> (render (fst (ctree ex_bad_rpar (0%N, []))), snd (snd (ctree ex_bad_rpar (0%N, [])))).
Proof. vm_compute. discriminate. Qed.

Example C09_ex_rbrace_in_variable :
  canonize (render ex_bad_rbrace)
  <> (render (fst (ctree ex_bad_rbrace (0%N, []))), snd (snd (ctree ex_bad_rbrace (0%N, [])))).
Proof. vm_compute. discriminate. Qed.

(** duplicates: in  (EX {x}) & (EX {x})  the sub-formula (EX {x}) is reported once (counter 1,
    two occurrences) *)
Definition ex_dup : tree :=
  Binary And (Unary EX (ex_var ex_x1)) (Unary EX (ex_var ex_x1)).

Example C09_ex_duplicates :
  exists k, mark_duplicates [ex_dup] = [(k, 1)]
            /\ k = fst (node_key (Unary EX (ex_var ex_x1)) []).
Proof. eexists. split; vm_compute; reflexivity. Qed.

Print Assumptions C09_ctree_def.
Print Assumptions C09_cbind_cocc_def.
Print Assumptions C09_canon_ok_def.
Print Assumptions C09_well_named_canon_ok.
Print Assumptions C09_canon_commutes.
Print Assumptions C09_canon_loop_render.
Print Assumptions C09_canon_iff_alpha.
Print Assumptions C09_canon_text_alpha.
Print Assumptions C09_alpha_canon_text.
Print Assumptions C09_canon_tree_of_open_db.
Print Assumptions C09_open_db_canon_tree.
Print Assumptions C09_db_alpha_eq.
Print Assumptions C09_alpha_eq_renaming.
Print Assumptions C09_renaming_injective.
Print Assumptions C09_renaming_keys.
Print Assumptions C09_canon_name_injective.
Print Assumptions C09_idempotent.
Print Assumptions C09_mark_duplicates_sound.
Print Assumptions C09_mark_duplicates_count.
Print Assumptions C09_occ_subtree.
Print Assumptions C09_node_at_occ.
Print Assumptions C09_ex_depth_named.
Print Assumptions C09_ex_text.
Print Assumptions C09_ex_same.
Print Assumptions C09_ex_different.
Print Assumptions C09_ex_map.
Print Assumptions C09_ex_scope_not_restored.
Print Assumptions C09_ex_brace_in_proposition.
Print Assumptions C09_ex_rpar_in_proposition.
Print Assumptions C09_ex_rbrace_in_variable.
Print Assumptions C09_ex_duplicates.
