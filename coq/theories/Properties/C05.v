(** C05 -- the parser accepts exactly the documented grammar and never drops input.
    Statements only; the proofs are in Proofs/ParserFacts.v.

    The grammar is defined in Proofs/ParserFacts.v as three mutually inductive relations
    between token lists and trees (a parenthesised group is the single token [TGroup ts]):

      G ts t    a formula, or the content of a group:
                  G_hyb  : G ts t -> G (THyb o x d :: ts) (Hybrid o x d t)
                  G_expr : L 6 ts t -> G ts t
      L n ts t  an expression whose top-level binary operators have class < n, with
                op_level: EU/AU/EW/AW = 0, And = 1, Xor = 2, Or = 3, Imp = 4, Iff = 5
                  L_unary : U ts t -> L 0 ts t
                  L_bin   : op_level o = n -> L n l a -> L (S n) r b ->
                            L (S n) (l ++ TBin o :: r) (Binary o a b)
                  L_skip  : L n ts t -> L (S n) ts t
      U ts t    unary operators applied to an atom or a group
                  U_un    : U ts t -> U (TUn o :: ts) (Unary o t)
                  U_prop  : U [TAtom (AProp n)] (Terminal (atom_of_prop_name n))
                  U_var   : U [TAtom (AVar x)] (Terminal (AVar x))
                  U_wild  : U [TAtom (AWild p)] (Terminal (AWild p))
                  U_group : G ts t -> U [TGroup ts] t

    i.e. unary operators bind tightest, then the binary temporal operators, then
    & ^ | => <=>; every binary operator is right-associative (left operand one class
    lower, right operand the same class); hybrid operators bind weakest and occur only at
    the start of a formula or of a group.  [C05_grammar_rules] restates the rules as a
    checked theorem. *)
From HCTL Require Import Base Syntax Parser.
From HCTL Require Import ParserFacts.

(** the rules above, as checked statements *)
Theorem C05_grammar_rules :
  (forall o x d ts t, G ts t -> G (THyb o x d :: ts) (Hybrid o x d t)) /\
  (forall ts t, L 6 ts t -> G ts t) /\
  (forall ts t, U ts t -> L 0 ts t) /\
  (forall n o l r a b, op_level o = n -> L n l a -> L (S n) r b ->
     L (S n) (l ++ TBin o :: r) (Binary o a b)) /\
  (forall n ts t, L n ts t -> L (S n) ts t) /\
  (forall o ts t, U ts t -> U (TUn o :: ts) (Unary o t)) /\
  (forall name, U [TAtom (AProp name)] (Terminal (atom_of_prop_name name))) /\
  (forall x, U [TAtom (AVar x)] (Terminal (AVar x))) /\
  (forall p, U [TAtom (AWild p)] (Terminal (AWild p))) /\
  (forall ts t, G ts t -> U [TGroup ts] t).
Proof.
  exact (conj G_hyb (conj G_expr (conj L_unary (conj L_bin (conj L_skip
        (conj U_un (conj U_prop (conj U_var (conj U_wild U_group))))))))).
Qed.

(** ... and nothing else is derivable: the relations are the least ones closed under the
    rules (mutual induction principle) *)
Theorem C05_grammar_least :
  forall (PG : list token -> tree -> Prop) (PL : nat -> list token -> tree -> Prop)
         (PU : list token -> tree -> Prop),
    (forall o x d ts t, PG ts t -> PG (THyb o x d :: ts) (Hybrid o x d t)) ->
    (forall ts t, PL 6 ts t -> PG ts t) ->
    (forall ts t, PU ts t -> PL 0 ts t) ->
    (forall n o l r a b, op_level o = n -> PL n l a -> PL (S n) r b ->
       PL (S n) (l ++ TBin o :: r) (Binary o a b)) ->
    (forall n ts t, PL n ts t -> PL (S n) ts t) ->
    (forall o ts t, PU ts t -> PU (TUn o :: ts) (Unary o t)) ->
    (forall name, PU [TAtom (AProp name)] (Terminal (atom_of_prop_name name))) ->
    (forall x, PU [TAtom (AVar x)] (Terminal (AVar x))) ->
    (forall p, PU [TAtom (AWild p)] (Terminal (AWild p))) ->
    (forall ts t, PG ts t -> PU [TGroup ts] t) ->
    (forall ts t, G ts t -> PG ts t) /\
    (forall n ts t, L n ts t -> PL n ts t) /\
    (forall ts t, U ts t -> PU ts t).
Proof. intros; apply GLU_mutind; eauto. Qed.

(** splitting at the first token satisfying a predicate *)
Theorem C05_split_first_some :
  forall (p : token -> bool) (ts l : list token) (x : token) (r : list token),
    split_first p ts = Some (l, x, r) <->
    ts = l ++ x :: r /\ p x = true /\ List.Forall (fun y => p y = false) l.
Proof. exact split_first_some_iff. Qed.

Theorem C05_split_first_none :
  forall (p : token -> bool) (ts : list token),
    split_first p ts = None <-> List.Forall (fun y => p y = false) ts.
Proof. exact split_first_none_iff. Qed.

(** soundness: only derivable (token list, tree) pairs are produced *)
Theorem C05_parse_sound :
  forall (ts : list token) (t : tree), parse_tokens ts = Ok t -> G ts t.
Proof. exact parse_sound. Qed.

(** completeness: every derivable pair is produced; in particular the fuel
    [parse_fuel ts] chosen by [parse_tokens] always suffices *)
Theorem C05_parse_complete :
  forall (ts : list token) (t : tree), G ts t -> parse_tokens ts = Ok t.
Proof. exact parse_complete. Qed.

Theorem C05_parse_exact :
  forall (ts : list token) (t : tree), parse_tokens ts = Ok t <-> G ts t.
Proof. exact parse_iff. Qed.

(** the grammar is unambiguous *)
Theorem C05_grammar_functional :
  forall (ts : list token) (t t' : tree), G ts t -> G ts t' -> t = t'.
Proof. exact grammar_functional. Qed.

(** the parser never panics and never runs out of fuel, on any token list *)
Theorem C05_no_panic :
  forall (ts : list token) (p : panicsite), parse_tokens ts <> Panic p.
Proof. exact parse_tokens_no_panic. Qed.

Theorem C05_no_out_of_fuel :
  forall (ts : list token), parse_tokens ts <> OutOfFuel.
Proof. exact parse_tokens_no_oof. Qed.

Theorem C05_outcomes :
  forall (ts : list token),
    (exists t, parse_tokens ts = Ok t) \/ parse_tokens ts = Err EParse.
Proof. exact parse_tokens_benign. Qed.

(** everything outside the grammar is rejected with a parse error *)
Theorem C05_parse_reject :
  forall (ts : list token), (forall t, ~ G ts t) -> parse_tokens ts = Err EParse.
Proof. exact parse_reject. Qed.

(** no token is dropped, duplicated or reordered: reading the operators and atoms of the
    tree in order gives back the input without its parentheses ([strip] flattens the
    groups), up to the spelling of constants ([norm_tok] maps the proposition names
    true/True/1 and false/False/0 to the constant atoms and is the identity elsewhere) *)
Theorem C05_no_token_dropped :
  forall (ts : list token) (t : tree),
    parse_tokens ts = Ok t -> leaves t = map norm_tok (strip ts).
Proof. intros ts t H; eapply leaves_strip, parse_sound; exact H. Qed.

Theorem C05_no_token_dropped_grammar :
  forall (ts : list token) (t : tree), G ts t -> leaves t = map norm_tok (strip ts).
Proof. exact leaves_strip. Qed.

Theorem C05_no_token_dropped_length :
  forall (ts : list token) (t : tree),
    G ts t -> length (leaves t) = length (strip ts).
Proof. exact leaves_length. Qed.

(** operator tokens (unary, binary, hybrid with variable and domain) are preserved
    literally and in order *)
Theorem C05_no_token_dropped_operators :
  forall (ts : list token) (t : tree),
    G ts t ->
    filter (fun x => negb (is_atom_tok x)) (leaves t) =
    filter (fun x => negb (is_atom_tok x)) (strip ts).
Proof. exact leaves_operators. Qed.

Theorem C05_no_token_dropped_atoms :
  forall (ts : list token) (t : tree),
    G ts t ->
    filter is_atom_tok (leaves t) = map norm_tok (filter is_atom_tok (strip ts)).
Proof. exact leaves_atoms. Qed.

(** [strip] really removes all group structure *)
Theorem C05_strip_no_group :
  forall (ts : list token), List.Forall not_group (strip ts).
Proof. exact strip_no_group. Qed.

(** Examples (non-vacuity; precedence and right-associativity).
    a & b | c & d  =  (a & b) | (c & d);   a => b => c  =  a => (b => c);
    !{x}: AG p EU ~q  =  !{x}: ((AG p) EU (~q));   (3{x}: p) & q needs the parentheses. *)
Definition ex_p (n : N) : token := TAtom (AProp [n]).
Definition ex_t (n : N) : tree := Terminal (AProp [n]).

Example C05_ex_prec :
  G [ex_p 97; TBin And; ex_p 98; TBin Or; ex_p 99; TBin And; ex_p 100]
    (Binary Or (Binary And (ex_t 97) (ex_t 98)) (Binary And (ex_t 99) (ex_t 100))).
Proof. apply C05_parse_sound. reflexivity. Qed.

Example C05_ex_right_assoc :
  G [ex_p 97; TBin Imp; ex_p 98; TBin Imp; ex_p 99]
    (Binary Imp (ex_t 97) (Binary Imp (ex_t 98) (ex_t 99))).
Proof. apply C05_parse_sound. reflexivity. Qed.

Example C05_ex_hybrid_temporal :
  G [THyb Bind [120%N] None; TUn AG; ex_p 112; TBin EU; TUn Not; ex_p 113]
    (Hybrid Bind [120%N] None
       (Binary EU (Unary AG (ex_t 112)) (Unary Not (ex_t 113)))).
Proof. apply C05_parse_sound. reflexivity. Qed.

Example C05_ex_hybrid_inside_rejected :
  parse_tokens [ex_p 113; TBin And; THyb Exists [120%N] None; ex_p 112] = Err EParse
  /\ G [ex_p 113; TBin And; TGroup [THyb Exists [120%N] None; ex_p 112]]
       (Binary And (ex_t 113) (Hybrid Exists [120%N] None (ex_t 112))).
Proof. split; [reflexivity|apply C05_parse_sound; reflexivity]. Qed.

Print Assumptions C05_grammar_rules.
Print Assumptions C05_grammar_least.
Print Assumptions C05_split_first_some.
Print Assumptions C05_split_first_none.
Print Assumptions C05_parse_sound.
Print Assumptions C05_parse_complete.
Print Assumptions C05_parse_exact.
Print Assumptions C05_grammar_functional.
Print Assumptions C05_no_panic.
Print Assumptions C05_no_out_of_fuel.
Print Assumptions C05_outcomes.
Print Assumptions C05_parse_reject.
Print Assumptions C05_no_token_dropped.
Print Assumptions C05_no_token_dropped_grammar.
Print Assumptions C05_no_token_dropped_length.
Print Assumptions C05_no_token_dropped_operators.
Print Assumptions C05_no_token_dropped_atoms.
Print Assumptions C05_strip_no_group.
Print Assumptions C05_ex_prec.
Print Assumptions C05_ex_right_assoc.
Print Assumptions C05_ex_hybrid_temporal.
Print Assumptions C05_ex_hybrid_inside_rejected.
