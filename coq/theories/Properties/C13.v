(** C13 -- EW and AW are weak until.  Statements only. *)
From HCTL Require Import Base TT Ops Kripke.
From HCTL Require Import SemFacts Laws.

Local Notation inU G U A := (forall v, mem (g_L G) A v = true -> mem (g_L G) U v = true).
Local Notation st G U := (steady_of G U).
Local Notation Mem G A := (fun v0 : val => mem (g_L G) A v0 = true).

(** the computed sets are the greatest fixed points of the until unfolding
    (EWs / AWs of Spec/Kripke.v), for arbitrary argument sets and any network *)
Theorem C13_ew : forall G U, wf_graph G U -> forall S T R,
  shaped (g_L G) S -> inU G U S -> shaped (g_L G) T -> inU G U T ->
  eval_ew G U S T (st G U) = Ok R ->
  forall v, mem (g_L G) R v = true <-> (mem (g_L G) U v = true /\ EWs G (Mem G S) (Mem G T) v).
Proof. intros G U [A1 A2 A3 A4 A5] S T R; intros; eapply (ew_is_weak_until G) with (U := U) (S := S) (T := T); eauto. Qed.

Theorem C13_aw : forall G U, wf_graph G U -> forall S T R,
  shaped (g_L G) S -> inU G U S -> shaped (g_L G) T -> inU G U T ->
  eval_aw G U S T = Ok R ->
  forall v, mem (g_L G) R v = true <-> (mem (g_L G) U v = true /\ AWs G (Mem G S) (Mem G T) v).
Proof. intros G U [A1 A2 A3 A4 A5] S T R; intros; eapply (aw_is_weak_until G) with (U := U) (S := S) (T := T); eauto. Qed.

(** E[S W T] = E[S U T] or EG S, as sets *)
Theorem C13_ew_equation : forall G U, wf_graph G U -> forall S T R Reu Reg,
  shaped (g_L G) S -> inU G U S -> shaped (g_L G) T -> inU G U T ->
  eval_ew G U S T (st G U) = Ok R -> eval_eu_saturated G S T = Ok Reu -> eval_eg G S (st G U) = Ok Reg ->
  R = tor Reu Reg.
Proof. intros G U [A1 A2 A3 A4 A5] S T R Reu Reg; intros; eapply (ew_equation G) with (U := U) (S := S) (T := T); eauto. Qed.

(** A[S W T] = not E[not T U (not S and not T)] *)
Theorem C13_aw_equation : forall G U S T, eval_aw G U S T =
  (let* r := eval_eu_saturated G (eval_neg U T) (tand (eval_neg U S) (eval_neg U T)) in Ok (eval_neg U r)).
Proof. reflexivity. Qed.

(** every state of T belongs to both weak untils *)
Theorem C13_ew_includes_psi : forall G U, wf_graph G U -> forall S T R v,
  shaped (g_L G) S -> inU G U S -> shaped (g_L G) T -> inU G U T ->
  eval_ew G U S T (st G U) = Ok R -> mem (g_L G) T v = true -> mem (g_L G) R v = true.
Proof. intros G U [A1 A2 A3 A4 A5] S T R v; intros; eapply (ew_includes_psi G) with (U := U) (S := S) (T := T); eauto. Qed.

Theorem C13_aw_includes_psi : forall G U, wf_graph G U -> forall S T R v,
  shaped (g_L G) S -> inU G U S -> shaped (g_L G) T -> inU G U T ->
  eval_aw G U S T = Ok R -> mem (g_L G) T v = true -> mem (g_L G) R v = true.
Proof. intros G U [A1 A2 A3 A4 A5] S T R v; intros; eapply (aw_includes_psi G) with (U := U) (S := S) (T := T); eauto. Qed.

(** the specification-level law behind the first equation *)
Theorem C13_spec_split : forall G (P Q : val -> Prop) v, (forall u, EUs G P Q u \/ ~ EUs G P Q u) ->
  (EWs G P Q v <-> EUs G P Q v \/ EGs G P v).
Proof. exact EW_split. Qed.

Print Assumptions C13_ew.
Print Assumptions C13_aw.
Print Assumptions C13_ew_equation.
Print Assumptions C13_aw_equation.
Print Assumptions C13_ew_includes_psi.
Print Assumptions C13_aw_includes_psi.
Print Assumptions C13_spec_split.
