(** C10 -- pre-computed results can be substituted for (closed) sub-formulae.
    This file contains only statements; the proofs live in theories/Proofs/SubstFacts.v.

    Vocabulary (SubstFacts.v):
    - [subst_closed psi w t]: every occurrence of the sub-tree [psi] in [t] is replaced by the
      wild-card proposition [Terminal (AWild w)]; occurrences are recognised with [tree_eqb]
      of Model/Syntax.v, which decides equality of trees (C10_tree_eqb_reflects).
    - [fresh_label w t]: [w] is no label of [t], neither of a wild-card proposition nor of a
      quantifier domain.  [fresh_outside psi w t] is the weaker condition that is really
      needed: [w] is no label of [t] OUTSIDE the occurrences of [psi]
      (C10_fresh_label_outside).
    - [ctx_with Gamma w P]: the context [Gamma] with label [w] re-bound to the predicate [P].
    - [subst_list], [ctx_list], [ctx_all], [fresh_list]: several replacements.
    - [subterm psi t]: [psi] occurs in [t].

    Findings worth knowing:
    - Neither the semantic step nor the evaluator step needs [psi] to be closed: [sat] reads a
      wild-card at the current valuation, spare copies included, so the raw result of an open
      sub-formula (evaluated on the top-level unit) can stand for it as well.  Closedness is
      what makes the raw result independent of the spare copies inside the unit
      (C10_closed_result_ignores_copies) and therefore what makes its SANITISED form exist
      (C10_closed_sanitize_defined); handing back the lifted sanitised set is covered by
      C10_substitute_sanitized / C10_substitute_closed_sanitized.
    - The raw result [Rpsi] is exact inside the unit only (outside it is arbitrary: wild-card
      sets are not intersected with the unit), so it does NOT satisfy [wild_sets_ok] for the
      context "[w] means [psi]".  The proofs bind [w] to "membership in the given set" and
      show that the two contexts give every formula the same meaning at the valuations of
      the unit, which is closed under everything [sat] moves along
      (C10_substitute_sat_unit).  Accordingly the conclusions are equalities of membership
      INSIDE the unit.
    - The label [w] may even occur as a domain label in the domain map handed to the
      evaluator, as long as the formula does not use it (C10_substitute_eval_gen). *)
From HCTL Require Import Base Syntax Canon MarkDup TT Ops Eval Pipeline Kripke HCTL.
From HCTL Require Import TTFacts EvalPure Main LayoutFacts IndepFacts.
From HCTL Require Import ExtSem ExtFacts ExtEval ExtLink PipelineFacts SubstFacts.

(** ** 0. Syntax *)

Theorem C10_tree_eqb_reflects : forall a b : tree, tree_eqb a b = true <-> a = b.
Proof. exact tree_eqb_eq. Qed.

(** the substitution, spelled out *)
Theorem C10_subst_closed_unfold :
  forall (psi : tree) (w : str) (t : tree),
    subst_closed psi w t =
    if tree_eqb psi t then Terminal (AWild w)
    else match t with
         | Terminal a => Terminal a
         | Unary o a => Unary o (subst_closed psi w a)
         | Binary o a b => Binary o (subst_closed psi w a) (subst_closed psi w b)
         | Hybrid o x d a => Hybrid o x d (subst_closed psi w a)
         end.
Proof. intros psi w t; destruct t; reflexivity. Qed.

Theorem C10_subst_closed_self :
  forall (psi : tree) (w : str), subst_closed psi w psi = Terminal (AWild w).
Proof. exact subst_closed_self. Qed.

Theorem C10_subst_closed_absent :
  forall (psi : tree) (w : str) (t : tree), ~ subterm psi t -> subst_closed psi w t = t.
Proof. exact subst_closed_absent. Qed.

Theorem C10_fresh_label_outside :
  forall (psi : tree) (w : str) (t : tree), fresh_label w t -> fresh_outside psi w t.
Proof. exact fresh_label_outside. Qed.

(** ** 1. The semantic core *)

(** if [w] means [psi], replacing [psi] by [%w%] changes nothing, at any valuation *)
Theorem C10_substitute_sat :
  forall (G : genv) (names : list str) (Gamma : str -> val -> Prop)
         (psi : tree) (w : str) (t : tree),
    fresh_label w t ->
    forall v : val,
      sat G names (ctx_with Gamma w (sat G names Gamma psi)) (subst_closed psi w t) v <->
      sat G names Gamma t v.
Proof. exact substitute_sat_fresh. Qed.

(** the same under the weaker freshness condition *)
Theorem C10_substitute_sat_outside :
  forall (G : genv) (names : list str) (Gamma : str -> val -> Prop)
         (psi : tree) (w : str) (t : tree),
    fresh_outside psi w t ->
    forall v : val,
      sat G names (ctx_with Gamma w (sat G names Gamma psi)) (subst_closed psi w t) v <->
      sat G names Gamma t v.
Proof. exact substitute_sat. Qed.

(** relative to the unit: the new context need only be right at the valuations of the unit *)
Theorem C10_substitute_sat_unit :
  forall (G : genv) (names : list str) (Utop : tt), wf_env G names Utop ->
  forall (Gamma Gamma2 : str -> val -> Prop) (psi : tree) (w : str) (t : tree),
    (forall (l : str) (v : val), l <> w -> mem (g_L G) Utop v = true ->
                                 (Gamma2 l v <-> Gamma l v)) ->
    (forall v : val, mem (g_L G) Utop v = true -> (Gamma2 w v <-> sat G names Gamma psi v)) ->
    fresh_outside psi w t ->
    forall v : val, mem (g_L G) Utop v = true ->
      (sat G names Gamma2 (subst_closed psi w t) v <-> sat G names Gamma t v).
Proof. exact subst_sat_unit. Qed.

(** contexts that agree on the labels of a formula give it the same meaning *)
Theorem C10_sat_ctx_agree :
  forall (G : genv) (names : list str) (Gamma Gamma2 : str -> val -> Prop)
         (Lab : str -> Prop) (t : tree),
    (forall (l : str) (v : val), Lab l -> (Gamma2 l v <-> Gamma l v)) ->
    labels_ok Lab t ->
    forall v : val, sat G names Gamma2 t v <-> sat G names Gamma t v.
Proof. exact sat_ctx_agree. Qed.

(** several replacements, one after the other ([ctx_list]: sub-formula i is read in the
    context of the replacements made before it) *)
Theorem C10_substitute_sat_list :
  forall (G : genv) (names : list str) (ps : list (tree * str))
         (Gamma : str -> val -> Prop) (t : tree),
    fresh_list ps t ->
    forall v : val,
      sat G names (ctx_list G names Gamma ps) (subst_list ps t) v <-> sat G names Gamma t v.
Proof. exact substitute_sat_list. Qed.

(** several simultaneous replacements: new, pairwise different labels that occur neither in
    [t] nor in the sub-formulae; label [w_i] means [psi_i] in the ORIGINAL context
    ([ctx_all]) *)
Theorem C10_substitute_sat_simultaneous :
  forall (G : genv) (names : list str) (ps : list (tree * str))
         (Gamma : str -> val -> Prop) (t : tree),
    NoDup (map snd ps) ->
    (forall q : tree * str, In q ps -> fresh_label (snd q) t) ->
    (forall q q' : tree * str, In q ps -> In q' ps -> fresh_label (snd q) (fst q')) ->
    forall v : val,
      sat G names (ctx_all G names Gamma ps) (subst_list ps t) v <-> sat G names Gamma t v.
Proof. exact substitute_sat_simultaneous. Qed.

(** ** 2. The evaluator *)

(** C10 for the cache-free extended evaluator: under the hypotheses of C02_extended_correct,
    evaluating the substituted formula with [w] bound to the raw result of [psi] gives,
    inside the unit, the members of the result for [t].  ([psi] need not be closed.) *)
Theorem C10_substitute_eval :
  forall (G : genv) (names : list str) (Utop : tt), wf_env G names Utop ->
  forall (Gamma : str -> val -> Prop) (sw : switches) (wild doms : list (str * tt)),
    wild_sets_ok G Gamma wild -> dom_sets_ok G Gamma doms ->
  forall (psi : tree) (w : str) (t : tree) (Rpsi R R' : tt),
    scoped G [] t -> scoped G [] psi -> fresh_label w t ->
    peval_ext G names sw (steady_of G Utop) wild doms psi Utop = Ok Rpsi ->
    peval_ext G names sw (steady_of G Utop) wild doms t Utop = Ok R ->
    peval_ext G names sw (steady_of G Utop) ((w, Rpsi) :: wild) doms
              (subst_closed psi w t) Utop = Ok R' ->
    forall v : val, mem (g_L G) Utop v = true -> mem (g_L G) R' v = mem (g_L G) R v.
Proof. exact substitute_eval_fresh. Qed.

(** when [psi] occurs in [t] its scoping is inherited *)
Theorem C10_substitute_eval_subterm :
  forall (G : genv) (names : list str) (Utop : tt), wf_env G names Utop ->
  forall (Gamma : str -> val -> Prop) (sw : switches) (wild doms : list (str * tt)),
    wild_sets_ok G Gamma wild -> dom_sets_ok G Gamma doms ->
  forall (psi : tree) (w : str) (t : tree) (Rpsi R R' : tt),
    scoped G [] t -> subterm psi t -> fresh_outside psi w t ->
    peval_ext G names sw (steady_of G Utop) wild doms psi Utop = Ok Rpsi ->
    peval_ext G names sw (steady_of G Utop) wild doms t Utop = Ok R ->
    peval_ext G names sw (steady_of G Utop) ((w, Rpsi) :: wild) doms
              (subst_closed psi w t) Utop = Ok R' ->
    forall v : val, mem (g_L G) Utop v = true -> mem (g_L G) R' v = mem (g_L G) R v.
Proof. exact substitute_eval_subterm. Qed.

(** a plain [psi] evaluated by the plain evaluator of C01 *)
Theorem C10_substitute_eval_plain :
  forall (G : genv) (names : list str) (Utop : tt), wf_env G names Utop ->
  forall (Gamma : str -> val -> Prop) (sw : switches) (wild doms : list (str * tt)),
    wild_sets_ok G Gamma wild -> dom_sets_ok G Gamma doms ->
  forall (psi : tree) (w : str) (t : tree) (Rpsi R R' : tt),
    scoped G [] t -> scoped G [] psi -> plainf psi -> fresh_outside psi w t ->
    peval G names sw (steady_of G Utop) psi Utop = Ok Rpsi ->
    peval_ext G names sw (steady_of G Utop) wild doms t Utop = Ok R ->
    peval_ext G names sw (steady_of G Utop) ((w, Rpsi) :: wild) doms
              (subst_closed psi w t) Utop = Ok R' ->
    forall v : val, mem (g_L G) Utop v = true -> mem (g_L G) R' v = mem (g_L G) R v.
Proof. exact substitute_eval_plain. Qed.

(** the general form: [w] bound to ANY set that inside the unit is the meaning of [psi]; the
    other labels bound as before (the domain map may even bind [w]: the substituted formula
    does not use it as a domain); the new result is a well-formed set *)
Theorem C10_substitute_eval_gen :
  forall (G : genv) (names : list str) (Utop : tt), wf_env G names Utop ->
  forall (Gamma : str -> val -> Prop) (sw : switches) (wild doms : list (str * tt)),
    wild_sets_ok G Gamma wild -> dom_sets_ok G Gamma doms ->
  forall (psi : tree) (w : str) (S : tt) (t : tree) (wild' doms' : list (str * tt))
         (R R' : tt),
    scoped G [] t -> fresh_outside psi w t ->
    shaped (g_L G) S ->
    (forall v : val, mem (g_L G) Utop v = true ->
                     (mem (g_L G) S v = true <-> sat G names Gamma psi v)) ->
    alookup str_eqb w wild' = Some S ->
    (forall l : str, l <> w -> alookup str_eqb l wild' = alookup str_eqb l wild) ->
    (forall l : str, l <> w -> alookup str_eqb l doms' = alookup str_eqb l doms) ->
    peval_ext G names sw (steady_of G Utop) wild doms t Utop = Ok R ->
    peval_ext G names sw (steady_of G Utop) wild' doms' (subst_closed psi w t) Utop = Ok R' ->
    shaped (g_L G) R' /\
    forall v : val, mem (g_L G) Utop v = true -> mem (g_L G) R' v = mem (g_L G) R v.
Proof. exact substitute_eval_gen. Qed.

(** ** 3. What closedness buys *)

(** the raw result of a closed (extended) formula does not read the spare copies inside the
    unit, when the context sets read colours and states only *)
Theorem C10_closed_result_ignores_copies :
  forall (G : genv) (names : list str) (Utop : tt), wf_env G names Utop ->
  forall (Gamma : str -> val -> Prop) (sw : switches) (wild doms : list (str * tt)),
    wild_sets_ok G Gamma wild -> dom_sets_ok G Gamma doms ->
  forall (psi : tree) (Rpsi : tt),
    (forall (l : str) (v w : val),
        (forall j : nat, v (TP j) = w (TP j)) -> (forall i : nat, v (TS i) = w (TS i)) ->
        (Gamma l v <-> Gamma l w)) ->
    scoped G [] psi -> closed_copies G psi ->
    peval_ext G names sw (steady_of G Utop) wild doms psi Utop = Ok Rpsi ->
    forall v w : val, mem (g_L G) Utop v = true ->
      (forall j : nat, v (TP j) = w (TP j)) -> (forall i : nat, v (TS i) = w (TS i)) ->
      mem (g_L G) Rpsi v = mem (g_L G) Rpsi w.
Proof. exact closed_result_ignores_copies. Qed.

(** the raw result of a closed plain formula can be sanitised *)
Theorem C10_closed_sanitize_defined :
  forall (G : genv) (names : list str) (Utop : tt), wf_env G names Utop ->
  forall (sw : switches) (psi : tree) (Rpsi : tt),
    plainf psi -> supported G psi -> closed_copies G psi ->
    peval G names sw (steady_of G Utop) psi Utop = Ok Rpsi ->
    exists S0 : tt, sanitize G Rpsi = Ok S0.
Proof. exact closed_sanitize_defined. Qed.

(** whenever the raw result can be sanitised, the sanitised set lifted back to the layout
    with spare copies ([Pipeline.lift] is [expand not_extra] of the layout) can stand for
    the sub-formula *)
Theorem C10_substitute_sanitized :
  forall (G : genv) (names : list str) (Utop : tt), wf_env G names Utop ->
  forall (Gamma : str -> val -> Prop) (sw : switches) (wild doms : list (str * tt)),
    wild_sets_ok G Gamma wild -> dom_sets_ok G Gamma doms ->
  forall (psi : tree) (w : str) (t : tree) (Rpsi S0 R R' : tt),
    scoped G [] t -> plainf psi -> supported G psi -> fresh_outside psi w t ->
    peval G names sw (steady_of G Utop) psi Utop = Ok Rpsi ->
    sanitize G Rpsi = Ok S0 ->
    peval_ext G names sw (steady_of G Utop) wild doms t Utop = Ok R ->
    peval_ext G names sw (steady_of G Utop) ((w, expand not_extra (g_L G) S0) :: wild) doms
              (subst_closed psi w t) Utop = Ok R' ->
    forall v : val, mem (g_L G) Utop v = true -> mem (g_L G) R' v = mem (g_L G) R v.
Proof. exact substitute_sanitized. Qed.

(** both together: closed plain sub-formula, sanitised pre-computed result *)
Theorem C10_substitute_closed_sanitized :
  forall (G : genv) (names : list str) (Utop : tt), wf_env G names Utop ->
  forall (Gamma : str -> val -> Prop) (sw : switches) (wild doms : list (str * tt))
         (psi : tree) (w : str) (t : tree) (Rpsi R : tt),
    wild_sets_ok G Gamma wild -> dom_sets_ok G Gamma doms ->
    scoped G [] t -> plainf psi -> supported G psi -> closed_copies G psi ->
    fresh_outside psi w t ->
    peval G names sw (steady_of G Utop) psi Utop = Ok Rpsi ->
    peval_ext G names sw (steady_of G Utop) wild doms t Utop = Ok R ->
    exists S0 : tt, sanitize G Rpsi = Ok S0 /\
      forall R' : tt,
        peval_ext G names sw (steady_of G Utop) ((w, expand not_extra (g_L G) S0) :: wild) doms
                  (subst_closed psi w t) Utop = Ok R' ->
        forall v : val, mem (g_L G) Utop v = true -> mem (g_L G) R' v = mem (g_L G) R v.
Proof. exact substitute_closed_sanitized. Qed.

(** ** 4. [eval_node], driven as the extended entry points drive it (no sub-formula marked as
    duplicate): the set for [w] is appended to the wild-card sets *)

Theorem C10_substitute_eval_node :
  forall (G : genv) (names : list str) (Utop : tt), wf_env G names Utop ->
  forall (Gamma : str -> val -> Prop) (sw : switches) (wprops dprops : list (str * tt)),
    (forall (l : str) (s : tt), In (l, s) wprops ->
       shaped (g_L G) s /\ forall v : val, mem (g_L G) s v = true <-> Gamma l v) ->
    (forall (l : str) (s : tt), In (l, s) dprops ->
       shaped (g_L G) s /\ extras_indep G s /\
       forall v : val, mem (g_L G) s v = true <-> Gamma l v) ->
  forall (psi : tree) (w : str) (S : tt) (t : tree) (R R' : tt) (c1 c2 : ectx),
    scoped G [] t -> linkable t -> linkable (Terminal (AWild w)) -> fresh_outside psi w t ->
    shaped (g_L G) S ->
    (forall v : val, mem (g_L G) Utop v = true ->
                     (mem (g_L G) S v = true <-> sat G names Gamma psi v)) ->
    eval_node G names sw (steady_of G Utop) t Utop
              (extend_context wprops dprops (ctx_new [])) = Ok (R, c1) ->
    eval_node G names sw (steady_of G Utop) (subst_closed psi w t) Utop
              (extend_context (wprops ++ [(w, S)]) dprops (ctx_new [])) = Ok (R', c2) ->
    forall v : val, mem (g_L G) Utop v = true -> mem (g_L G) R' v = mem (g_L G) R v.
Proof. exact substitute_eval_node. Qed.

(** ... with the set computed by [eval_node] itself on [psi] *)
Theorem C10_substitute_eval_node_result :
  forall (G : genv) (names : list str) (Utop : tt), wf_env G names Utop ->
  forall (Gamma : str -> val -> Prop) (sw : switches) (wprops dprops : list (str * tt)),
    (forall (l : str) (s : tt), In (l, s) wprops ->
       shaped (g_L G) s /\ forall v : val, mem (g_L G) s v = true <-> Gamma l v) ->
    (forall (l : str) (s : tt), In (l, s) dprops ->
       shaped (g_L G) s /\ extras_indep G s /\
       forall v : val, mem (g_L G) s v = true <-> Gamma l v) ->
  forall (psi : tree) (w : str) (t : tree) (Rpsi R R' : tt) (c0 c1 c2 : ectx),
    scoped G [] t -> scoped G [] psi -> linkable t -> linkable psi ->
    linkable (Terminal (AWild w)) -> fresh_outside psi w t ->
    eval_node G names sw (steady_of G Utop) psi Utop
              (extend_context wprops dprops (ctx_new [])) = Ok (Rpsi, c0) ->
    eval_node G names sw (steady_of G Utop) t Utop
              (extend_context wprops dprops (ctx_new [])) = Ok (R, c1) ->
    eval_node G names sw (steady_of G Utop) (subst_closed psi w t) Utop
              (extend_context (wprops ++ [(w, Rpsi)]) dprops (ctx_new [])) = Ok (R', c2) ->
    forall v : val, mem (g_L G) Utop v = true -> mem (g_L G) R' v = mem (g_L G) R v.
Proof. exact substitute_eval_node_result. Qed.

(** the side conditions survive the substitution *)
Theorem C10_scoped_subst :
  forall (G : genv) (psi : tree) (w : str) (t : tree) (bound : list nat),
    scoped G bound t -> scoped G bound (subst_closed psi w t).
Proof. exact scoped_subst. Qed.

Theorem C10_scoped_subterm :
  forall (G : genv) (psi t : tree) (bound : list nat),
    scoped G bound t -> subterm psi t -> scoped G [] psi.
Proof. exact scoped_subterm. Qed.

Theorem C10_linkable_subst :
  forall (psi : tree) (w : str), linkable (Terminal (AWild w)) ->
  forall t : tree, linkable t -> linkable (subst_closed psi w t).
Proof. exact linkable_subst. Qed.

(** ** 5. Empty contexts: the extended entry points are the plain ones *)

(** the evaluator *)
Theorem C10_empty_context :
  forall (G : genv) (names : list str) (sw : switches) (steady : tt) (t : tree) (U : tt),
    plainf t ->
    peval_ext G names sw steady [] [] t U = peval G names sw steady t U.
Proof. exact peval_ext_empty_plain. Qed.

(** extending a context by nothing *)
Theorem C10_extend_context_nil : forall c : ectx, extend_context [] [] c = c.
Proof. exact extend_context_nil. Qed.

(** [check_trees] with empty contexts does not depend on the [m_ext] switch: any trees, with
    or without cache *)
Theorem C10_check_trees_empty_context :
  forall (w : world) (k : nat) (m m' : mode) (ts : list tree),
    m_sanitize m = m_sanitize m' -> m_unsafe_ex m = m_unsafe_ex m' ->
    m_nocache m = m_nocache m' -> m_nopatterns m = m_nopatterns m' ->
    check_trees w k m ts [] [] = check_trees w k m' ts [] [].
Proof. exact check_trees_empty_context. Qed.

Theorem C10_check_trees_ext_switch :
  forall (w : world) (k : nat) (s u nc np : bool) (ts : list tree),
    check_trees w k {| m_ext := true; m_sanitize := s; m_unsafe_ex := u;
                       m_nocache := nc; m_nopatterns := np |} ts [] [] =
    check_trees w k {| m_ext := false; m_sanitize := s; m_unsafe_ex := u;
                       m_nocache := nc; m_nopatterns := np |} ts [] [].
Proof. exact check_trees_ext_switch. Qed.

(** hence the extended entry point on plain trees (no-cache mode, dirty results) is correct
    as the plain one is *)
Theorem C10_check_trees_ext_empty_correct :
  forall (w : world) (k : nat),
    List.Forall (shaped (Lpn (w_p w) (w_n w))) (w_upd w) ->
    shaped (Lpn (w_p w) (w_n w)) (w_unit w) ->
    (forall v v' : val, (forall j : nat, v (TP j) = v' (TP j)) ->
       mem (Lpn (w_p w) (w_n w)) (w_unit w) v = mem (Lpn (w_p w) (w_n w)) (w_unit w) v') ->
    length (w_names w) <= w_n w ->
  forall (Gamma : str -> val -> Prop) (m : mode) (ts : list tree) (rs : list tt),
    m_ext m = true -> m_sanitize m = false -> m_unsafe_ex m = false -> m_nocache m = true ->
    List.Forall plainf ts -> List.Forall (supported (genv_of w k)) ts ->
    check_trees w k m ts [] [] = Ok rs ->
    List.Forall2
      (fun (t : tree) (R : tt) => forall v : val,
         mem (g_L (genv_of w k)) R v = true <->
         (mem (g_L (genv_of w k)) (unit_of w k) v = true /\
          sat (genv_of w k) (w_names w) Gamma t v))
      ts rs.
Proof. exact check_trees_ext_empty_correct. Qed.

Print Assumptions C10_tree_eqb_reflects.
Print Assumptions C10_subst_closed_unfold.
Print Assumptions C10_subst_closed_self.
Print Assumptions C10_subst_closed_absent.
Print Assumptions C10_fresh_label_outside.
Print Assumptions C10_substitute_sat.
Print Assumptions C10_substitute_sat_outside.
Print Assumptions C10_substitute_sat_unit.
Print Assumptions C10_sat_ctx_agree.
Print Assumptions C10_substitute_sat_list.
Print Assumptions C10_substitute_sat_simultaneous.
Print Assumptions C10_substitute_eval.
Print Assumptions C10_substitute_eval_subterm.
Print Assumptions C10_substitute_eval_plain.
Print Assumptions C10_substitute_eval_gen.
Print Assumptions C10_closed_result_ignores_copies.
Print Assumptions C10_closed_sanitize_defined.
Print Assumptions C10_substitute_sanitized.
Print Assumptions C10_substitute_closed_sanitized.
Print Assumptions C10_substitute_eval_node.
Print Assumptions C10_substitute_eval_node_result.
Print Assumptions C10_scoped_subst.
Print Assumptions C10_scoped_subterm.
Print Assumptions C10_linkable_subst.
Print Assumptions C10_empty_context.
Print Assumptions C10_extend_context_nil.
Print Assumptions C10_check_trees_empty_context.
Print Assumptions C10_check_trees_ext_switch.
Print Assumptions C10_check_trees_ext_empty_correct.
