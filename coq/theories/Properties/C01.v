(** C01 -- model checking returns exactly the satisfying (state, colour) pairs.
    This file contains only statements; the proofs live in theories/Proofs. *)
From HCTL Require Import Base Syntax MarkDup TT Ops Eval Kripke HCTL.
From HCTL Require Import SemFacts EvalPure Main.

(** [eval_node] (the evaluator of the entry points), driven with a context that marks no
    duplicate sub-formulae and with the pattern shortcuts on or off, returns exactly the
    valuations of the unit set that satisfy the formula [sat] -- for every network, every
    unit set that constrains colours only, every number of spare copies, every plain formula
    whose variables have a spare copy.  Satisfaction ([Spec/HCTL.v], [Spec/Kripke.v]) is the
    standard one: asynchronous transitions of the colour, self-loop on states without
    successor, least/greatest fixed points for the temporal operators, environment of state
    variables for bind / jump / exists / forall. *)
Theorem C01_eval_node_correct :
  forall (G : genv) (names : list str) (U : tt), wf_env G names U ->
  forall (Gamma : str -> val -> Prop) (sw : switches) (t : tree) (c : ectx) (R : tt) (c' : ectx),
    plainf t -> supported G t -> duplicates c = [] ->
    eval_node G names sw (steady_of G U) t U c = Ok (R, c') ->
    shaped (g_L G) R /\
    forall v, mem (g_L G) R v = true <-> (mem (g_L G) U v = true /\ sat G names Gamma t v).
Proof. exact eval_node_correct. Qed.
Print Assumptions C01_eval_node_correct.

(** the evaluator without cache and shortcuts machinery, same statement *)
Theorem C01_peval_correct :
  forall (G : genv) (names : list str) (U : tt), wf_env G names U ->
  forall (Gamma : str -> val -> Prop) (sw : switches) (t : tree) (R : tt),
    plainf t -> supported G t ->
    peval G names sw (steady_of G U) t U = Ok R -> spec_of G U R (sat G names Gamma t).
Proof. exact peval_correct. Qed.
Print Assumptions C01_peval_correct.

(** eval_node with a context without duplicates *is* that evaluator *)
Theorem C01_eval_node_is_peval :
  forall (G : genv) (names : list str) (sw : switches) (steady : tt) (t : tree) (U : tt) (c : ectx),
    plainf t -> duplicates c = [] ->
    exists c', duplicates c' = [] /\
      eval_node G names sw steady t U c = bind (peval G names sw steady t U) (fun r => Ok (r, c')).
Proof. exact eval_node_nodup. Qed.
Print Assumptions C01_eval_node_is_peval.

(** ---- the entry-point model ---- *)
From HCTL Require Import Pipeline LayoutFacts PipelineFacts Termination.

(** [check_trees] (the model of _model_check_multiple_trees_dirty), in the mode whose context
    marks no duplicates, returns for every formula of the batch exactly its satisfying
    valuations -- for every world whose tables are well-shaped and whose unit set constrains
    colours only (what lib-param-bn provides; checked on every generated case by the harness) *)
Theorem C01_check_trees_correct :
  forall (w : world) (k : nat),
    List.Forall (shaped (Lpn (w_p w) (w_n w))) (w_upd w) ->
    shaped (Lpn (w_p w) (w_n w)) (w_unit w) ->
    (forall v v', (forall j, v (TP j) = v' (TP j)) ->
       mem (Lpn (w_p w) (w_n w)) (w_unit w) v = mem (Lpn (w_p w) (w_n w)) (w_unit w) v') ->
    length (w_names w) <= w_n w ->
    forall (Gamma : str -> val -> Prop) m ts rs,
      m_ext m = false -> m_sanitize m = false -> m_unsafe_ex m = false -> m_nocache m = true ->
      List.Forall plainf ts -> List.Forall (supported (genv_of w k)) ts ->
      check_trees w k m ts [] [] = Ok rs ->
      List.Forall2 (fun t R => forall v,
         mem (g_L (genv_of w k)) R v = true <->
         (mem (g_L (genv_of w k)) (unit_of w k) v = true /\ sat (genv_of w k) (w_names w) Gamma t v)) ts rs.
Proof. exact check_trees_nocache_correct. Qed.
Print Assumptions C01_check_trees_correct.

(** the graphs built by the pipeline satisfy the well-formedness assumptions of the theorems
    above (they are not vacuous) *)
Theorem C01_world_wf :
  forall p n k (upd_pn : list tt) (unit_pn : tt) (names : list str),
    List.Forall (shaped (Lpn p n)) upd_pn -> shaped (Lpn p n) unit_pn ->
    (forall v w, (forall j, v (TP j) = w (TP j)) -> mem (Lpn p n) unit_pn v = mem (Lpn p n) unit_pn w) ->
    length names <= n ->
    wf_env (mk_genv p n k upd_pn) names (expand not_extra (mk_layout p n k) unit_pn).
Proof. exact mk_genv_wf. Qed.
Print Assumptions C01_world_wf.

(** the evaluator always terminates with a result on plain supported formulae with known
    propositions: the fuel of every fixed-point loop suffices, nothing panics *)
Theorem C01_peval_total :
  forall G names sw steady U t,
    NoDup (g_L G) -> (forall i, shaped (g_L G) (upd_of G i)) ->
    shaped (g_L G) steady -> shaped (g_L G) U ->
    plainf t -> supported G t -> props_known names t ->
    exists R, peval G names sw steady t U = Ok R /\ shaped (g_L G) R.
Proof. intros; eapply peval_total; eauto. Qed.
Print Assumptions C01_peval_total.
