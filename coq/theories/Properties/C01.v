(** C01 -- model checking returns exactly the satisfying (state, colour) pairs.
    This file contains only statements; the proofs live in theories/Proofs. *)
From HCTL Require Import Base Syntax MarkDup TT Ops Eval Kripke HCTL.
From HCTL Require Import SemFacts EvalPure Main.

(** [eval_node] (the evaluator of the entry points), driven with a context that marks no
    duplicate sub-formulae and with the pattern shortcuts on or off, returns exactly the
    valuations of the unit set that satisfy the formula [sat] -- for every network, every
    unit set that constrains colours only, every number of spare copies, every plain formula
    whose variables have a spare copy.  Satisfaction ([Spec/HCTL.v], [Spec/Kripke.v]) is the
    standard one: asynchronous transitions of the colour, self-loop on states without
    successor, least/greatest fixed points for the temporal operators, environment of state
    variables for bind / jump / exists / forall. *)
Theorem C01_eval_node_correct :
  forall (G : genv) (names : list str) (U : tt), wf_env G names U ->
  forall (Gamma : str -> val -> Prop) (sw : switches) (t : tree) (c : ectx) (R : tt) (c' : ectx),
    plainf t -> supported G t -> duplicates c = [] ->
    eval_node G names sw (steady_of G U) t U c = Ok (R, c') ->
    shaped (g_L G) R /\
    forall v, mem (g_L G) R v = true <-> (mem (g_L G) U v = true /\ sat G names Gamma t v).
Proof. exact eval_node_correct. Qed.
Print Assumptions C01_eval_node_correct.

(** the evaluator without cache and shortcuts machinery, same statement *)
Theorem C01_peval_correct :
  forall (G : genv) (names : list str) (U : tt), wf_env G names U ->
  forall (Gamma : str -> val -> Prop) (sw : switches) (t : tree) (R : tt),
    plainf t -> supported G t ->
    peval G names sw (steady_of G U) t U = Ok R -> spec_of G U R (sat G names Gamma t).
Proof. exact peval_correct. Qed.
Print Assumptions C01_peval_correct.

(** eval_node with a context without duplicates *is* that evaluator *)
Theorem C01_eval_node_is_peval :
  forall (G : genv) (names : list str) (sw : switches) (steady : tt) (t : tree) (U : tt) (c : ectx),
    plainf t -> duplicates c = [] ->
    exists c', duplicates c' = [] /\
      eval_node G names sw steady t U c = bind (peval G names sw steady t U) (fun r => Ok (r, c')).
Proof. exact eval_node_nodup. Qed.
Print Assumptions C01_eval_node_is_peval.
