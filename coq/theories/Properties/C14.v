(** C14 -- invalid input is rejected with an error, never with a panic and never silently.
    Statements only; the proofs are in Proofs/NoPanic.v and Proofs/ClosedIndep.v.

    Scope.  The plain string entry points [model_check ext_alnum w k m ctx fs] with
    [m_ext m = false] (no wild-cards / domains; [ctx] is then ignored), the evaluation
    context that marks no duplicates ([m_nocache m = true]), pattern shortcuts on or off, and
    - the real self-loop set ([m_unsafe_ex m = false]), results sanitised or dirty, or
    - the empty self-loop set ([m_unsafe_ex m = true]) with dirty results.
    NOT covered: the cache ([m_nocache m = false], duplicates marked by [mark_duplicates]),
    the extended entry points ([m_ext m = true]: wild-card propositions, domains, the
    context-label check and its error EMissingContext), and the sanitised variant of the
    unsafe_ex entry point.  The tokenizer and parser statements (sections 1 and 2) hold for
    both syntaxes.

    [world_ok w] (the hypotheses of Proofs/PipelineFacts.v): the update tables and the unit
    set are complete trees over the layout  params ++ states, the unit set only reads the
    colour, and [length (w_names w) <= w_n w].  Neither [length (w_names w) = w_n w] nor
    distinct names is needed.

    Vocabulary (NoPanic.v):
    - [plain_toks ts]: no wild-card atom and no domain in [ts], at any nesting depth;
    - [scope_violation props scope t e]: the first scoping violation of [t] in reading order
      and its class [e]: EFreeVar (variable occurrence or jump target not in scope; a jump
      reports its body first), ERequantified (quantifier over a name in scope), EUnknownProp;
    - [tree_ok props k t]: [well_scoped props [] t /\ qdepth t <= k];
    - [tree_rejected props k t e]: [scope_violation props [] t e], or [t] is well scoped,
      [k < qdepth t] and [e = EVarSupport];
    - [accepted props k f]: [f] tokenizes and parses (plain syntax) to a tree that is
      [tree_ok];  [rejected props k f e]: [f] does not tokenize ([e = ELex]), or its tokens do
      not parse ([e = EParse]), or it parses to a tree that is [tree_rejected] with [e];
    - [first_reject P R l e]: some element of [l] satisfies [R _ e] and all elements before
      it satisfy [P];
    - [agree_upto d v w] (ClosedIndep.v): [v] and [w] have the same colour, state and spare
      copies below [d]. *)
From HCTL Require Import Base Syntax Tokenizer Parser Preprocess TT Ops Eval Pipeline.
From HCTL Require Import Kripke HCTL EvalPure Main LayoutFacts PrepFacts Termination.
From HCTL Require Import ClosedIndep NoPanic.

(** ** 1. the tokenizer: tokens or a lexical error, nothing else; the fuel suffices *)

Theorem C14_tokenize_ok_or_lex :
  forall (ext_alnum : N -> bool) (ext : bool) (s : str),
    (exists ts, tokenize ext_alnum ext s = Ok ts /\ (ext = false -> plain_toks ts))
    \/ tokenize ext_alnum ext s = Err ELex.
Proof. exact tokenize_ok_or_lex. Qed.

Theorem C14_tokenize_no_panic :
  forall (ext_alnum : N -> bool) (ext : bool) (s : str) (p : panicsite),
    tokenize ext_alnum ext s <> Panic p.
Proof. exact tokenize_no_panic. Qed.

Theorem C14_tokenize_no_fuel :
  forall (ext_alnum : N -> bool) (ext : bool) (s : str),
    tokenize ext_alnum ext s <> OutOfFuel.
Proof. exact tokenize_no_fuel. Qed.

(** every call of [tok] consumes at least one character: any fuel above the length of the
    input is enough (the entry point uses [S (length s)]) *)
Theorem C14_tok_fuel_suffices :
  forall (ext_alnum : N -> bool) (f : nat) (cs : str) (top ext : bool) (acc : list token),
    length cs < f ->
    tok ext_alnum f cs top ext acc <> OutOfFuel
    /\ (forall p, tok ext_alnum f cs top ext acc <> Panic p)
    /\ (forall e, tok ext_alnum f cs top ext acc = Err e -> e = ELex)
    /\ (forall ts rest, tok ext_alnum f cs top ext acc = Ok (ts, rest) ->
                        length rest <= length cs).
Proof. exact tok_fuel_suffices. Qed.

(** in the plain syntax: no wild-card atom, no domain; parsing keeps that *)
Theorem C14_tokenize_plain :
  forall (ext_alnum : N -> bool) (s : str) (ts : list token),
    tokenize ext_alnum false s = Ok ts -> plain_toks ts.
Proof. exact tokenize_plain. Qed.

Theorem C14_parse_plain :
  forall (ts : list token) (t : tree),
    parse_tokens ts = Ok t -> plain_toks ts -> plainf t.
Proof. exact parse_plain. Qed.

Theorem C14_parse_formula_plain :
  forall (ext_alnum : N -> bool) (s : str) (t : tree),
    parse_formula ext_alnum false s = Ok t -> plainf t.
Proof. exact parse_formula_plain. Qed.

(** [parse_formula] answers with a tree, ELex or EParse *)
Theorem C14_parse_formula_cases :
  forall (ext_alnum : N -> bool) (ext : bool) (s : str),
    (exists ts t, tokenize ext_alnum ext s = Ok ts /\ parse_tokens ts = Ok t
                  /\ parse_formula ext_alnum ext s = Ok t)
    \/ (tokenize ext_alnum ext s = Err ELex /\ parse_formula ext_alnum ext s = Err ELex)
    \/ (exists ts, tokenize ext_alnum ext s = Ok ts /\ parse_tokens ts = Err EParse
                   /\ parse_formula ext_alnum ext s = Err EParse).
Proof. exact parse_formula_cases. Qed.

(** ** 2. bridges from C07 to the hypotheses of the evaluator theorems *)

Theorem C14_bridge :
  forall (props : list str) (t t' : tree),
    preprocess props t = Ok t' ->
    (plainf t' <-> plainf t)
    /\ props_known props t'
    /\ depth_named 0 t'
    /\ num_hctl_vars t' = qdepth t
    /\ forall G : genv, num_hctl_vars t' <= g_k G -> supported G t'.
Proof. exact preprocess_bridge. Qed.

(** the error class of preprocessing is the class of the first violation *)
Theorem C14_preprocess_err_iff :
  forall (props : list str) (t : tree) (e : errkind),
    preprocess props t = Err e <-> scope_violation props [] t e.
Proof. exact preprocess_err_iff. Qed.

Theorem C14_not_well_scoped_iff :
  forall (props : list str) (t : tree),
    ~ well_scoped props [] t <-> exists e, scope_violation props [] t e.
Proof. exact not_well_scoped_iff. Qed.

Theorem C14_scope_violation_class :
  forall (props : list str) (scope : list str) (t : tree) (e : errkind),
    scope_violation props scope t e ->
    e = EFreeVar \/ e = ERequantified \/ e = EUnknownProp.
Proof. exact scope_violation_class. Qed.

Theorem C14_tree_rejected_iff :
  forall (props : list str) (k : nat) (t : tree),
    (exists e, tree_rejected props k t e) <-> (~ well_scoped props [] t \/ k < qdepth t).
Proof. exact tree_rejected_iff. Qed.

(** ** 3. the meaning of a closed formula does not read the spare copies, so sanitising its
    result never panics *)

Theorem C14_sat_indep :
  forall (G : genv) (names : list str) (Gamma : str -> val -> Prop),
    (forall i v w, (forall g, is_extra_tag g = false -> v g = w g) ->
       mem (g_L G) (upd_of G i) v = mem (g_L G) (upd_of G i) w) ->
    forall (t : tree) (d : nat), plainf t -> depth_named d t ->
    forall v w, agree_upto d v w -> sat G names Gamma t v -> sat G names Gamma t w.
Proof. exact sat_resp. Qed.

Theorem C14_closed_result_restrict :
  forall (G : genv) (names : list str) (U : tt), wf_env G names U ->
  forall (sw : switches) (t : tree) (R : tt),
    plainf t -> supported G t -> depth_named 0 t ->
    peval G names sw (steady_of G U) t U = Ok R ->
    exists s, restrict (fun g => negb (is_extra_tag g)) (g_L G) R = Some s.
Proof. exact closed_result_restrict. Qed.

(** ** 4. validation *)

Theorem C14_validate_err_iff :
  forall (ext_alnum : N -> bool) (props : list str) (k : nat) (ctx : list (str * tt))
         (fs : list str) (e : errkind),
    validate_all ext_alnum false props k ctx fs = Err e
    <-> first_reject (accepted ext_alnum props k) (rejected ext_alnum props k) fs e.
Proof. exact validate_all_err_iff. Qed.

Theorem C14_validate_no_panic :
  forall (ext_alnum : N -> bool) (props : list str) (k : nat) (ctx : list (str * tt))
         (fs : list str),
    (forall p, validate_all ext_alnum false props k ctx fs <> Panic p)
    /\ validate_all ext_alnum false props k ctx fs <> OutOfFuel.
Proof. exact validate_all_no_panic. Qed.

(** ** 5. the entry points *)

(** never a panic, never out of fuel -- sanitised or dirty *)
Theorem C14_no_panic :
  forall (ext_alnum : N -> bool) (w : world) (k : nat) (m : mode) (ctx : list (str * tt))
         (fs : list str),
    world_ok w ->
    m_ext m = false -> m_nocache m = true -> m_unsafe_ex m = false ->
    (forall p, model_check ext_alnum w k m ctx fs <> Panic p)
    /\ model_check ext_alnum w k m ctx fs <> OutOfFuel.
Proof. intros ea w k m ctx fs [H1 [H2 [H3 H4]]] He Hn Hu. apply model_check_no_panic; unfold covered; auto. Qed.

(** the dirty unsafe_ex entry point (empty self-loop set) *)
Theorem C14_no_panic_unsafe_ex_dirty :
  forall (ext_alnum : N -> bool) (w : world) (k : nat) (m : mode) (ctx : list (str * tt))
         (fs : list str),
    world_ok w ->
    m_ext m = false -> m_nocache m = true -> m_sanitize m = false ->
    (forall p, model_check ext_alnum w k m ctx fs <> Panic p)
    /\ model_check ext_alnum w k m ctx fs <> OutOfFuel.
Proof. intros ea w k m ctx fs [H1 [H2 [H3 H4]]] He Hn Hs. apply model_check_no_panic; unfold covered; auto. Qed.

(** the outcome is an answer with one set per formula when every formula is accepted, and
    otherwise the error of the first rejected formula *)
Theorem C14_cases :
  forall (ext_alnum : N -> bool) (w : world) (k : nat) (m : mode) (ctx : list (str * tt))
         (fs : list str),
    world_ok w ->
    m_ext m = false -> m_nocache m = true -> (m_unsafe_ex m = false \/ m_sanitize m = false) ->
    (exists rs, model_check ext_alnum w k m ctx fs = Ok rs /\ length rs = length fs
                /\ List.Forall (accepted ext_alnum (w_names w) k) fs)
    \/ (exists e, model_check ext_alnum w k m ctx fs = Err e
                  /\ first_reject (accepted ext_alnum (w_names w) k)
                                  (rejected ext_alnum (w_names w) k) fs e).
Proof. intros ea w k m ctx fs [H1 [H2 [H3 H4]]] He Hn Hus. apply model_check_cases; unfold covered; auto. Qed.

(** an error exactly when some formula is rejected (lexical error, parse error, scoping
    violation, too many nested quantifiers); the class is that of the first cause of the
    first rejected formula *)
Theorem C14_error_iff_strings :
  forall (ext_alnum : N -> bool) (w : world) (k : nat) (m : mode) (ctx : list (str * tt))
         (fs : list str) (e : errkind),
    world_ok w ->
    m_ext m = false -> m_nocache m = true -> (m_unsafe_ex m = false \/ m_sanitize m = false) ->
    (model_check ext_alnum w k m ctx fs = Err e
     <-> first_reject (accepted ext_alnum (w_names w) k) (rejected ext_alnum (w_names w) k) fs e).
Proof. intros ea w k m ctx fs e [H1 [H2 [H3 H4]]] He Hn Hus. apply model_check_err_iff; unfold covered; auto. Qed.

(** never a silent answer: an answer exactly when every formula is accepted *)
Theorem C14_ok_iff :
  forall (ext_alnum : N -> bool) (w : world) (k : nat) (m : mode) (ctx : list (str * tt))
         (fs : list str),
    world_ok w ->
    m_ext m = false -> m_nocache m = true -> (m_unsafe_ex m = false \/ m_sanitize m = false) ->
    ((exists rs, model_check ext_alnum w k m ctx fs = Ok rs)
     <-> List.Forall (accepted ext_alnum (w_names w) k) fs).
Proof. intros ea w k m ctx fs [H1 [H2 [H3 H4]]] He Hn Hus. apply model_check_ok_iff; unfold covered; auto. Qed.

(** with every formula tokenized and parsed: an error [e] exactly when the first tree that is
    not accepted is rejected with [e] -- a scoping violation of class [e], or a well-scoped
    tree nesting more than [k] quantifiers and [e = EVarSupport] *)
Theorem C14_error_iff :
  forall (ext_alnum : N -> bool) (w : world) (k : nat) (m : mode) (ctx : list (str * tt))
         (fs : list str) (ts : list tree) (e : errkind),
    world_ok w ->
    m_ext m = false -> m_nocache m = true -> (m_unsafe_ex m = false \/ m_sanitize m = false) ->
    Forall2 (fun f t => parse_formula ext_alnum false f = Ok t) fs ts ->
    (model_check ext_alnum w k m ctx fs = Err e
     <-> exists ts1 t ts2,
           ts = ts1 ++ t :: ts2
           /\ List.Forall (fun t1 => well_scoped (w_names w) [] t1 /\ qdepth t1 <= k) ts1
           /\ (scope_violation (w_names w) [] t e
               \/ (well_scoped (w_names w) [] t /\ k < qdepth t /\ e = EVarSupport))).
Proof. intros ea w k m ctx fs ts e [H1 [H2 [H3 H4]]] He Hn Hus P. apply (model_check_err_iff_parsed ea w k H1 H2 H3 H4 m ctx fs ts e); unfold covered; auto. Qed.

Theorem C14_some_error_iff :
  forall (ext_alnum : N -> bool) (w : world) (k : nat) (m : mode) (ctx : list (str * tt))
         (fs : list str) (ts : list tree),
    world_ok w ->
    m_ext m = false -> m_nocache m = true -> (m_unsafe_ex m = false \/ m_sanitize m = false) ->
    Forall2 (fun f t => parse_formula ext_alnum false f = Ok t) fs ts ->
    ((exists e, model_check ext_alnum w k m ctx fs = Err e)
     <-> List.Exists (fun t => ~ well_scoped (w_names w) [] t \/ k < qdepth t) ts).
Proof. intros ea w k m ctx fs ts [H1 [H2 [H3 H4]]] He Hn Hus P. apply (model_check_errs_iff_parsed ea w k H1 H2 H3 H4 m ctx fs ts); unfold covered; auto. Qed.

(** the possible error classes of the plain entry points *)
Theorem C14_error_class :
  forall (ext_alnum : N -> bool) (props : list str) (k : nat) (f : str) (e : errkind),
    rejected ext_alnum props k f e ->
    e = ELex \/ e = EParse \/ e = EFreeVar \/ e = ERequantified \/ e = EUnknownProp
    \/ e = EVarSupport.
Proof. exact rejected_class. Qed.

Print Assumptions C14_tokenize_ok_or_lex.
Print Assumptions C14_tokenize_no_panic.
Print Assumptions C14_tokenize_no_fuel.
Print Assumptions C14_tok_fuel_suffices.
Print Assumptions C14_tokenize_plain.
Print Assumptions C14_parse_plain.
Print Assumptions C14_parse_formula_plain.
Print Assumptions C14_parse_formula_cases.
Print Assumptions C14_bridge.
Print Assumptions C14_preprocess_err_iff.
Print Assumptions C14_not_well_scoped_iff.
Print Assumptions C14_scope_violation_class.
Print Assumptions C14_tree_rejected_iff.
Print Assumptions C14_sat_indep.
Print Assumptions C14_closed_result_restrict.
Print Assumptions C14_validate_err_iff.
Print Assumptions C14_validate_no_panic.
Print Assumptions C14_no_panic.
Print Assumptions C14_no_panic_unsafe_ex_dirty.
Print Assumptions C14_cases.
Print Assumptions C14_error_iff_strings.
Print Assumptions C14_ok_iff.
Print Assumptions C14_error_iff.
Print Assumptions C14_some_error_iff.
Print Assumptions C14_error_class.
