(** C04 (full) -- sub-formula caching and batch evaluation are observationally transparent,
    for plain formulae (no wild-cards, no variable domains).  Statements only; the proofs are
    in Proofs/RenameFacts.v (syntax of renaming maps), Proofs/ParsedNamed.v (the front end
    produces well-named trees) and Proofs/CacheFacts.v (semantics of renaming, the invariant).

    Vocabulary.
    - [peval G names sw steady t U] (EvalPure.v): the evaluator without cache, a function of
      the formula alone; [peval_correct] (C01): its result is exactly [sat].
    - [good ea ext G names t]: what the evaluator meets -- a plain ([plainf]) sub-formula of a
      preprocessed formula ([depth_named d] for some [d]) whose variables have a spare copy
      ([supported]), whose propositions are known ([props_known]) and whose names are those
      the parser can produce ([well_named], the side condition of C06 and C09).  Every tree
      returned by [validate_all] is good ([C04_validated_good]).
    - [cache_ok c]: every entry [(k, (S, rn))] of the cache is [entry_ok]: [S] is the [peval]
      result (in the unit [U], with the switches [sw]) of some good tree [t0] whose canonical
      text is [fst k] and whose renaming map is [rn], and [rn] has at most one entry.
    - [dups_ok c]: every marked key [k] has a [single_text]: EVERY well-named sub-formula of a
      preprocessed formula with canonical text [fst k] has an at most one-entry renaming map.
      By [C04_single_entry_invariant] one such sub-formula suffices; [mark_duplicates] only
      marks such keys ([C04_mark_duplicates_dups_ok]).
    Neither invariant mentions the counters of [duplicates], [free_doms] or [domain_sets]:
    for plain formulae they are irrelevant to the results (history independence).

    Scope.  The self-loop set handed to the evaluator is [steady_of G U] (every mode but
    [m_unsafe_ex]); formulae are plain.  Not covered (see the report): wild-cards / variable
    domains ([extend_context], restricted units), and [m_unsafe_ex = true]. *)
From Coq Require Import Permutation.
From HCTL Require Import Base Syntax Preprocess Canon MarkDup TT Ops Eval Pipeline Kripke HCTL.
From HCTL Require Import TTFacts EvalPure Main Termination PrepFacts RoundTrip CanonFacts CanonAlpha
  MarkDupFacts LayoutFacts PipelineFacts NoPanic RenameFacts ParsedNamed CacheFacts.

(** ** 0. definitions restated *)

Theorem C04_good_def :
  forall ea ext G names t,
    good ea ext G names t <->
    (plainf t /\ supported G t /\ props_known names t /\ well_named ea ext t
     /\ exists d, depth_named d t).
Proof. exact (fun ea ext G names t => conj (fun H => H) (fun H => H)). Qed.

Theorem C04_cache_ok_def :
  forall ea ext G names sw U (c : ectx),
    cache_ok ea ext G names sw U c <->
    (forall k S rn, In (k, (S, rn)) (cache c) ->
       exists t0, good ea ext G names t0 /\ canonize (render t0) = (fst k, rn)
                  /\ length rn <= 1 /\ peval G names sw (steady_of G U) t0 U = Ok S).
Proof. exact (fun ea ext G names sw U c => conj (fun H => H) (fun H => H)). Qed.

Theorem C04_dups_ok_def :
  forall ea ext (c : ectx),
    dups_ok ea ext c <->
    (forall k m, In (k, m) (duplicates c) ->
       forall t d, well_named ea ext t -> depth_named d t ->
         fst (canonize (render t)) = fst k -> length (snd (canonize (render t))) <= 1).
Proof. exact (fun ea ext c => conj (fun H => H) (fun H => H)). Qed.

(** ** 1. the renaming map: "at most one entry" is a property of the canonical text *)

(** sub-formulae of preprocessed formulae with the same canonical text: if one has an at most
    one-entry renaming map, so has the other (the test [renaming.len() <= 1] of
    mark_duplicates.rs does not depend on the occurrence) *)
Theorem C04_single_entry_invariant :
  forall ea ext d d1 t t1,
    well_named ea ext t -> well_named ea ext t1 -> depth_named d t -> depth_named d1 t1 ->
    fst (canonize (render t)) = fst (canonize (render t1)) ->
    length (snd (canonize (render t1))) <= 1 -> length (snd (canonize (render t))) <= 1.
Proof. exact single_transfer. Qed.
Print Assumptions C04_single_entry_invariant.

(** ... and then the two are literally the same tree, or the same tree with its only
    variable name [x1] replaced by [x] everywhere (binders, occurrences, jump targets), and
    the two maps send [x1], [x] to the same canonical name *)
Theorem C04_hit_shape :
  forall ea ext d d1 t t1,
    well_named ea ext t -> well_named ea ext t1 -> depth_named d t -> depth_named d1 t1 ->
    fst (canonize (render t)) = fst (canonize (render t1)) ->
    length (snd (canonize (render t1))) <= 1 ->
    (snd (canonize (render t1)) = [] /\ t = t1)
    \/ (exists x1 x cn,
          snd (canonize (render t1)) = [(x1, cn)] /\ snd (canonize (render t)) = [(x, cn)]
          /\ occurs x1 t1 /\ occurs x t /\ (forall y, occurs y t1 -> y = x1)
          /\ t = vmap (fun _ => x) t1).
Proof. exact hit_shape. Qed.
Print Assumptions C04_hit_shape.

(** ** 2. semantics of the renaming *)

(** [substitute_hctl_var S e0 e] is [S] read with copy [e0] := copy [e] *)
Theorem C04_substitute_spec :
  forall G names U, wf_env G names U ->
  forall (A : tt) (P : val -> Prop) e0 e,
    e0 < g_k G -> e < g_k G -> e0 <> e -> SemFacts.spec_of G U A P ->
    SemFacts.spec_of G U (substitute_hctl_var G A e0 e) (fun v => P (copy_from e0 e v)).
Proof. exact spec_substitute. Qed.
Print Assumptions C04_substitute_spec.

(** a formula whose only variable name is [x] and the same formula with the name [x0]:
    valuations with the same colour and state, copy of [x] = copy of [x0], satisfy both or
    neither *)
Theorem C04_sat_rename :
  forall G names U, wf_env G names U ->
  forall (Gamma : str -> val -> Prop) x x0 e e0,
    var_of G x = Some e -> var_of G x0 = Some e0 ->
    forall s, plainf s -> forall v w,
      (forall j, v (TP j) = w (TP j)) /\ (forall i, v (TS i) = w (TS i))
      /\ (forall i, v (TX i e) = w (TX i e0)) ->
      (sat G names Gamma (vmap (fun _ => x) s) v <-> sat G names Gamma (vmap (fun _ => x0) s) w).
Proof. exact sat_rename. Qed.
Print Assumptions C04_sat_rename.

(** ** 3. the invariant *)

(** a cache hit under the invariant: [rename_back] does not panic and returns the [peval]
    result of the current node *)
Theorem C04_hit_ok :
  forall ea ext G names sw U, wf_env G names U ->
  forall t canon ren S rn,
    good ea ext G names t -> canonize (render t) = (canon, ren) ->
    (exists t0, good ea ext G names t0 /\ canonize (render t0) = (canon, rn) /\ length rn <= 1
                /\ peval G names sw (steady_of G U) t0 U = Ok S) ->
    exists R, rename_back G rn ren S = Ok R /\ peval G names sw (steady_of G U) t U = Ok R.
Proof. exact (fun ea ext G names sw U WF t canon ren => hit_ok ea ext G names sw U WF t canon ren []). Qed.
Print Assumptions C04_hit_ok.

(** the main invariant: [eval_node] with ANY context satisfying the invariants returns the
    [peval] result (equality of decision trees) and a context satisfying the invariants *)
Theorem C04_eval_node_cache_transparent :
  forall ea ext G names sw U, wf_env G names U ->
  forall t c R c',
    good ea ext G names t -> cache_ok ea ext G names sw U c -> dups_ok ea ext c ->
    eval_node G names sw (steady_of G U) t U c = Ok (R, c') ->
    peval G names sw (steady_of G U) t U = Ok R
    /\ cache_ok ea ext G names sw U c' /\ dups_ok ea ext c'.
Proof. exact eval_node_cache_transparent. Qed.
Print Assumptions C04_eval_node_cache_transparent.

(** the converse: under the invariants [eval_node] never panics (no [PReverseRenaming], no
    other panic), never runs out of fuel, never errs *)
Theorem C04_eval_node_cache_total :
  forall ea ext G names sw U, wf_env G names U ->
  forall t c,
    good ea ext G names t -> cache_ok ea ext G names sw U c -> dups_ok ea ext c ->
    exists R c', eval_node G names sw (steady_of G U) t U c = Ok (R, c').
Proof. exact eval_node_cache_total. Qed.
Print Assumptions C04_eval_node_cache_total.

(** C01 with the cache switched on *)
Theorem C04_eval_node_cache_correct :
  forall ea ext G names sw U, wf_env G names U ->
  forall (Gamma : str -> val -> Prop) t c R c',
    good ea ext G names t -> cache_ok ea ext G names sw U c -> dups_ok ea ext c ->
    eval_node G names sw (steady_of G U) t U c = Ok (R, c') ->
    shaped (g_L G) R /\
    forall v, mem (g_L G) R v = true <-> (mem (g_L G) U v = true /\ sat G names Gamma t v).
Proof. exact eval_node_cache_correct. Qed.
Print Assumptions C04_eval_node_cache_correct.

(** the open scopes recorded in the context are restored: [free_doms] is the same before and
    after a node (a plain sub-formula found below [d] quantifiers, no deeper binder name in
    scope -- in particular a closed formula started with [free_doms c = []]); the invariants
    above do not depend on [free_doms] or [domain_sets] at all *)
Theorem C04_eval_node_free_doms :
  forall G names sw steady t d U c R c',
    plainf t -> depth_named d t ->
    (forall j, d <= j -> alookup str_eqb (xs (S j)) (free_doms c) = None) ->
    eval_node G names sw steady t U c = Ok (R, c') -> free_doms c' = free_doms c.
Proof. exact eval_node_free_doms. Qed.
Print Assumptions C04_eval_node_free_doms.

(** the context of the entry points satisfies the invariants *)
Theorem C04_mark_duplicates_dups_ok :
  forall ea ext roots,
    List.Forall (fun t => well_named ea ext t /\ exists d, depth_named d t) roots ->
    dups_ok ea ext (ctx_new (mark_duplicates roots)).
Proof. exact mark_duplicates_dups_ok. Qed.
Print Assumptions C04_mark_duplicates_dups_ok.

Theorem C04_ctx_new_cache_ok :
  forall ea ext G names sw U dups, cache_ok ea ext G names sw U (ctx_new dups).
Proof. exact ctx_new_cache_ok. Qed.
Print Assumptions C04_ctx_new_cache_ok.

(** every reported key is the key of a node with an at most one-entry map *)
Theorem C04_mark_duplicates_single :
  forall roots k m, In (k, m) (mark_duplicates roots) ->
    exists t doms, occ roots (t, doms) /\ fst (node_key t doms) = k
                   /\ length (snd (node_key t doms)) <= 1.
Proof. exact mark_duplicates_wit. Qed.
Print Assumptions C04_mark_duplicates_single.

(** what [validate_all] returns is good: the side conditions are those of the pipeline *)
Theorem C04_validated_good :
  forall ea (w : world) k ctx fs r,
    validate_all ea false (w_names w) k ctx fs = Ok r ->
    exists ts', r = (ts', [], [])
                /\ List.Forall (good ea false (genv_of w k) (w_names w)) ts'.
Proof. exact validate_all_good. Qed.
Print Assumptions C04_validated_good.

Theorem C04_parsed_well_named :
  forall ea ext s t, parse_formula ea ext s = Ok t -> well_named ea ext t.
Proof. exact parsed_well_named. Qed.
Print Assumptions C04_parsed_well_named.

(** ** 4. batches *)

(** history independence: ANY starting context satisfying the invariants *)
Theorem C04_batch_transparent :
  forall ea ext G names sw U, wf_env G names U ->
  forall ts c rs,
    List.Forall (good ea ext G names) ts ->
    cache_ok ea ext G names sw U c -> dups_ok ea ext c ->
    eval_all G names sw (steady_of G U) U ts c = Ok rs ->
    List.Forall2 (fun t R => peval G names sw (steady_of G U) t U = Ok R) ts rs.
Proof. exact batch_transparent. Qed.
Print Assumptions C04_batch_transparent.

Theorem C04_batch_transparent_marked :
  forall ea ext G names sw U, wf_env G names U ->
  forall ts rs,
    List.Forall (good ea ext G names) ts ->
    eval_all G names sw (steady_of G U) U ts (ctx_new (mark_duplicates ts)) = Ok rs ->
    List.Forall2 (fun t R => peval G names sw (steady_of G U) t U = Ok R) ts rs.
Proof. exact batch_transparent_marked. Qed.
Print Assumptions C04_batch_transparent_marked.

Theorem C04_batch_total :
  forall ea ext G names sw U, wf_env G names U ->
  forall ts c,
    List.Forall (good ea ext G names) ts ->
    cache_ok ea ext G names sw U c -> dups_ok ea ext c ->
    exists rs, eval_all G names sw (steady_of G U) U ts c = Ok rs.
Proof. exact batch_total. Qed.
Print Assumptions C04_batch_total.

(** the entry point evaluates a batch formula by formula: [single w k m t] is [peval] on [t]
    followed by the sanitiser when the mode asks for it *)
Theorem C04_single_def :
  forall (w : world) k m t,
    single w k m t =
    (let* r := peval (genv_of w k) (w_names w) {| use_patterns := negb (m_nopatterns m) |}
                     (steady_of (genv_of w k) (unit_of w k)) t (unit_of w k) in
     if m_sanitize m then sanitize (genv_of w k) r else Ok r).
Proof. exact (fun w k m t => eq_refl). Qed.

Theorem C04_check_trees_map :
  forall ea ext (w : world) k,
    List.Forall (shaped (Lpn (w_p w) (w_n w))) (w_upd w) ->
    shaped (Lpn (w_p w) (w_n w)) (w_unit w) ->
    (forall v v', (forall j, v (TP j) = v' (TP j)) ->
       mem (Lpn (w_p w) (w_n w)) (w_unit w) v = mem (Lpn (w_p w) (w_n w)) (w_unit w) v') ->
    length (w_names w) <= w_n w ->
    forall m ts,
      m_ext m = false -> m_unsafe_ex m = false ->
      List.Forall (good ea ext (genv_of w k) (w_names w)) ts ->
      check_trees w k m ts [] [] = mapM (single w k m) ts.
Proof. exact check_trees_map. Qed.
Print Assumptions C04_check_trees_map.

(** ** 5. the property in its own words *)

(** (a) with and without duplicate marking: the same outcome (one is [Ok rs] iff the other
    is, with the same [rs]; the same panic otherwise -- only the sanitiser can panic) *)
Theorem C04_cache_mode_irrelevant :
  forall ea ext (w : world) k,
    List.Forall (shaped (Lpn (w_p w) (w_n w))) (w_upd w) ->
    shaped (Lpn (w_p w) (w_n w)) (w_unit w) ->
    (forall v v', (forall j, v (TP j) = v' (TP j)) ->
       mem (Lpn (w_p w) (w_n w)) (w_unit w) v = mem (Lpn (w_p w) (w_n w)) (w_unit w) v') ->
    length (w_names w) <= w_n w ->
    forall m m' ts,
      m_ext m = false -> m_unsafe_ex m = false -> m_ext m' = false -> m_unsafe_ex m' = false ->
      m_sanitize m = m_sanitize m' -> m_nopatterns m = m_nopatterns m' ->
      List.Forall (good ea ext (genv_of w k) (w_names w)) ts ->
      check_trees w k m ts [] [] = check_trees w k m' ts [] [].
Proof. exact cache_mode_irrelevant. Qed.
Print Assumptions C04_cache_mode_irrelevant.

(** ... for the string entry point, whatever the strings *)
Theorem C04_model_check_cache_mode_irrelevant :
  forall ea (w : world) k m m' ctx fs,
    List.Forall (shaped (Lpn (w_p w) (w_n w))) (w_upd w) ->
    shaped (Lpn (w_p w) (w_n w)) (w_unit w) ->
    (forall v v', (forall j, v (TP j) = v' (TP j)) ->
       mem (Lpn (w_p w) (w_n w)) (w_unit w) v = mem (Lpn (w_p w) (w_n w)) (w_unit w) v') ->
    length (w_names w) <= w_n w ->
    m_ext m = false -> m_unsafe_ex m = false -> m_ext m' = false -> m_unsafe_ex m' = false ->
    m_sanitize m = m_sanitize m' -> m_nopatterns m = m_nopatterns m' ->
    model_check ea w k m ctx fs = model_check ea w k m' ctx fs.
Proof. exact model_check_cache_mode_irrelevant. Qed.
Print Assumptions C04_model_check_cache_mode_irrelevant.

(** (b) the result at position [i] is the result of the [i]-th formula evaluated alone *)
Theorem C04_batch_position :
  forall ea ext (w : world) k,
    List.Forall (shaped (Lpn (w_p w) (w_n w))) (w_upd w) ->
    shaped (Lpn (w_p w) (w_n w)) (w_unit w) ->
    (forall v v', (forall j, v (TP j) = v' (TP j)) ->
       mem (Lpn (w_p w) (w_n w)) (w_unit w) v = mem (Lpn (w_p w) (w_n w)) (w_unit w) v') ->
    length (w_names w) <= w_n w ->
    forall m ts rs i dt dr,
      m_ext m = false -> m_unsafe_ex m = false ->
      List.Forall (good ea ext (genv_of w k) (w_names w)) ts ->
      check_trees w k m ts [] [] = Ok rs -> i < length ts ->
      check_trees w k m [nth i ts dt] [] [] = Ok [nth i rs dr].
Proof. exact batch_position. Qed.
Print Assumptions C04_batch_position.

(** (c) a permuted batch has the correspondingly permuted results *)
Theorem C04_batch_permutation :
  forall ea ext (w : world) k,
    List.Forall (shaped (Lpn (w_p w) (w_n w))) (w_upd w) ->
    shaped (Lpn (w_p w) (w_n w)) (w_unit w) ->
    (forall v v', (forall j, v (TP j) = v' (TP j)) ->
       mem (Lpn (w_p w) (w_n w)) (w_unit w) v = mem (Lpn (w_p w) (w_n w)) (w_unit w) v') ->
    length (w_names w) <= w_n w ->
    forall m ts ts' rs,
      m_ext m = false -> m_unsafe_ex m = false ->
      List.Forall (good ea ext (genv_of w k) (w_names w)) ts -> Permutation ts ts' ->
      check_trees w k m ts [] [] = Ok rs ->
      exists rs', check_trees w k m ts' [] [] = Ok rs'
                  /\ Permutation (combine ts rs) (combine ts' rs').
Proof. exact batch_permutation. Qed.
Print Assumptions C04_batch_permutation.

(** ... and a repeated formula gets its result twice *)
Theorem C04_batch_repetition :
  forall ea ext (w : world) k,
    List.Forall (shaped (Lpn (w_p w) (w_n w))) (w_upd w) ->
    shaped (Lpn (w_p w) (w_n w)) (w_unit w) ->
    (forall v v', (forall j, v (TP j) = v' (TP j)) ->
       mem (Lpn (w_p w) (w_n w)) (w_unit w) v = mem (Lpn (w_p w) (w_n w)) (w_unit w) v') ->
    length (w_names w) <= w_n w ->
    forall m t ts r1 r2 rs,
      m_ext m = false -> m_unsafe_ex m = false ->
      List.Forall (good ea ext (genv_of w k) (w_names w)) (t :: t :: ts) ->
      check_trees w k m (t :: t :: ts) [] [] = Ok (r1 :: r2 :: rs) ->
      r1 = r2 /\ check_trees w k m (t :: ts) [] [] = Ok (r1 :: rs).
Proof. exact batch_repetition. Qed.
Print Assumptions C04_batch_repetition.

(** (d) two runs from different contexts that satisfy the invariants return the same list *)
Theorem C04_history_independent :
  forall ea ext (w : world) k,
    List.Forall (shaped (Lpn (w_p w) (w_n w))) (w_upd w) ->
    shaped (Lpn (w_p w) (w_n w)) (w_unit w) ->
    (forall v v', (forall j, v (TP j) = v' (TP j)) ->
       mem (Lpn (w_p w) (w_n w)) (w_unit w) v = mem (Lpn (w_p w) (w_n w)) (w_unit w) v') ->
    length (w_names w) <= w_n w ->
    forall sw ts c1 c2 rs1 rs2,
      List.Forall (good ea ext (genv_of w k) (w_names w)) ts ->
      cache_ok ea ext (genv_of w k) (w_names w) sw (unit_of w k) c1 -> dups_ok ea ext c1 ->
      cache_ok ea ext (genv_of w k) (w_names w) sw (unit_of w k) c2 -> dups_ok ea ext c2 ->
      eval_all (genv_of w k) (w_names w) sw (steady_of (genv_of w k) (unit_of w k))
               (unit_of w k) ts c1 = Ok rs1 ->
      eval_all (genv_of w k) (w_names w) sw (steady_of (genv_of w k) (unit_of w k))
               (unit_of w k) ts c2 = Ok rs2 ->
      rs1 = rs2.
Proof. exact history_independent. Qed.
Print Assumptions C04_history_independent.

(** * Examples (non-vacuity) *)

(** two variables a, b (b follows a, a is always updated to 1), one parameter bit, two spare
    copies;  f1 = !{x}: (EX {x}),  f2 = !{x}: !{xx}: (AX (EX {xx})).
    The sub-formulae (EX {x}) of f1 and (EX {xx}) of f2 have the canonical text "(EX {var0})";
    [mark_duplicates] reports it once; evaluating f1 stores the set of (EX {x}); evaluating f2
    takes it from the cache, renames copy 0 into copy 1, and evicts the entry. *)
Definition ex_ea : N -> bool := fun _ => false.
Definition ex_w : world :=
  {| w_p := 1; w_n := 2; w_names := [[97%N]; [98%N]];
     w_upd := [const (Lpn 1 2) true; lit (Lpn 1 2) (TS 0)];
     w_unit := const (Lpn 1 2) true |}.
Definition ex_G : genv := genv_of ex_w 2.
Definition ex_U : tt := unit_of ex_w 2.
Definition ex_sw : switches := {| use_patterns := true |}.
Definition ex_vx : tree := Terminal (AVar (xs 1)).
Definition ex_vxx : tree := Terminal (AVar (xs 2)).
Definition ex_f1 : tree := Hybrid Bind (xs 1) None (Unary EX ex_vx).
Definition ex_f2 : tree :=
  Hybrid Bind (xs 1) None (Hybrid Bind (xs 2) None (Unary AX (Unary EX ex_vxx))).
Definition ex_ts : list tree := [ex_f1; ex_f2].
Definition ex_c0 : ectx := ctx_new (mark_duplicates ex_ts).
Definition ex_eval (t : tree) (c : ectx) : res (tt * ectx) :=
  eval_node ex_G (w_names ex_w) ex_sw (steady_of ex_G ex_U) t ex_U c.
Definition ex_peval (t : tree) : res tt :=
  peval ex_G (w_names ex_w) ex_sw (steady_of ex_G ex_U) t ex_U.

(** the hypotheses of the theorems hold for this instance *)
Example C04_ex_world :
  List.Forall (shaped (Lpn (w_p ex_w) (w_n ex_w))) (w_upd ex_w)
  /\ shaped (Lpn (w_p ex_w) (w_n ex_w)) (w_unit ex_w)
  /\ (forall v v', (forall j, v (TP j) = v' (TP j)) ->
        mem (Lpn (w_p ex_w) (w_n ex_w)) (w_unit ex_w) v = mem (Lpn (w_p ex_w) (w_n ex_w)) (w_unit ex_w) v')
  /\ length (w_names ex_w) <= w_n ex_w.
Proof.
  split; [|split; [|split]].
  - constructor; [apply shaped_const|]. constructor; [apply shaped_lit | constructor].
  - apply shaped_const.
  - intros v v' _. cbn [w_unit ex_w]. rewrite !mem_const. reflexivity.
  - cbn. lia.
Qed.

Example C04_ex_good : List.Forall (good ex_ea false ex_G (w_names ex_w)) ex_ts.
Proof.
  assert (forall t, plainf t -> supported ex_G t -> props_known (w_names ex_w) t ->
                    well_namedb ex_ea false t = true -> depth_named 0 t ->
                    good ex_ea false ex_G (w_names ex_w) t) as K.
  { intros t A B C D E. repeat split; try assumption.
    - apply well_namedb_sound, D.
    - exists 0. exact E. }
  constructor; [|constructor; [|constructor]]; apply K; cbn; repeat split; try discriminate;
    try reflexivity; first [exists 0; split; [lia | reflexivity] | exists 1; split; [lia | reflexivity]].
Qed.

(** one key is marked, with counter 1; it is the key of (EX {x}) below the binder of x *)
Example C04_ex_marked :
  mark_duplicates ex_ts = [(fst (node_key (Unary EX ex_vx) [(xs 1, None)]), 1)].
Proof. vm_compute. reflexivity. Qed.

(** after the first formula the cache holds one entry: the set of (EX {x}), with its map *)
Example C04_ex_cache_filled :
  exists r1 c1, ex_eval ex_f1 ex_c0 = Ok (r1, c1)
    /\ (exists k S, cache c1 = [(k, (S, [(xs 1, canon_name 0)]))] /\ ex_peval (Unary EX ex_vx) = Ok S)
    /\ map snd (duplicates c1) = [1].
Proof.
  do 2 eexists. split; [vm_compute; reflexivity|]. split; [|vm_compute; reflexivity].
  do 2 eexists. split; vm_compute; reflexivity.
Qed.

(** the second formula is served from the cache: the entry is evicted (only a hit evicts),
    and the set it contributes is NOT the cached set but its renaming *)
Example C04_ex_cache_hit :
  exists r1 c1 r2 c2,
    ex_eval ex_f1 ex_c0 = Ok (r1, c1) /\ ex_eval ex_f2 c1 = Ok (r2, c2)
    /\ cache c2 = [] /\ duplicates c2 = []
    /\ ex_peval ex_f1 = Ok r1 /\ ex_peval ex_f2 = Ok r2.
Proof.
  do 4 eexists. split; [vm_compute; reflexivity|]. split; [vm_compute; reflexivity|].
  repeat split; vm_compute; reflexivity.
Qed.

Example C04_ex_renaming_not_identity :
  ex_peval (Unary EX ex_vx) <> ex_peval (Unary EX ex_vxx)
  /\ exists S, ex_peval (Unary EX ex_vx) = Ok S
               /\ ex_peval (Unary EX ex_vxx) = Ok (substitute_hctl_var ex_G S 0 1).
Proof.
  split; [vm_compute; discriminate|]. eexists. split; vm_compute; reflexivity.
Qed.

(** the batch, with duplicate marking, returns the cache-free results; they are neither empty
    nor full *)
Example C04_ex_batch :
  eval_all ex_G (w_names ex_w) ex_sw (steady_of ex_G ex_U) ex_U ex_ts ex_c0 = mapM ex_peval ex_ts
  /\ exists r1 r2, mapM ex_peval ex_ts = Ok [r1; r2] /\ card r1 = 32 /\ card r2 = 32
                   /\ card ex_U = 128.
Proof.
  split; [vm_compute; reflexivity|]. eexists. eexists. split; [vm_compute; reflexivity|].
  repeat split; vm_compute; reflexivity.
Qed.

Example C04_ex_check_trees :
  check_trees ex_w 2 {| m_ext := false; m_sanitize := false; m_unsafe_ex := false;
                        m_nocache := false; m_nopatterns := false |} ex_ts [] []
  = check_trees ex_w 2 {| m_ext := false; m_sanitize := false; m_unsafe_ex := false;
                          m_nocache := true; m_nopatterns := false |} ex_ts [] [].
Proof. vm_compute. reflexivity. Qed.

(** NOT covered by the theorems above -- one instance with variable domains, for the record:
    (EX {x}) below  3{x} in %A%  is stored; (EX {xx}) below  3{x} in %B%: 3{xx} in %A%  has
    the same key and is served from the cache although the variable x (not in its renaming
    map) is restricted there.  The cached set was computed in a LARGER unit, so at the node
    the sets differ outside the current unit; the quantifiers intersect with their unit, and
    the results of the batch agree with the evaluation without duplicate marking. *)
Definition ex_lA : str := [65%N].
Definition ex_lB : str := [66%N].
Definition ex_g1 : tree := Hybrid Exists (xs 1) (Some ex_lA) (Unary EX ex_vx).
Definition ex_g2 : tree :=
  Hybrid Exists (xs 1) (Some ex_lB)
    (Hybrid Exists (xs 2) (Some ex_lA) (Unary AX (Unary EX ex_vxx))).
Definition ex_g3 : tree :=
  Hybrid Forall (xs 1) (Some ex_lB)
    (Hybrid Exists (xs 2) (Some ex_lA)
       (Binary Or (Unary Not (Unary EX ex_vxx)) (Unary EX ex_vxx))).
Definition ex_doms : list (str * tt) :=
  [(ex_lA, lit (Lpn 1 2) (TS 0)); (ex_lB, lit (Lpn 1 2) (TS 1))].
Definition ex_md (nc : bool) : mode :=
  {| m_ext := true; m_sanitize := false; m_unsafe_ex := false; m_nocache := nc;
     m_nopatterns := false |}.

Example C04_ex_domains_instance :
  map snd (mark_duplicates [ex_g1; ex_g2; ex_g3]) = [3]
  /\ check_trees ex_w 2 (ex_md false) [ex_g1; ex_g2; ex_g3] [] ex_doms
     = check_trees ex_w 2 (ex_md true) [ex_g1; ex_g2; ex_g3] [] ex_doms
  /\ exists rs, check_trees ex_w 2 (ex_md false) [ex_g1; ex_g2; ex_g3] [] ex_doms = Ok rs
                /\ map card rs = [128; 96; 128].
Proof.
  split; [vm_compute; reflexivity|]. split; [vm_compute; reflexivity|].
  eexists. split; vm_compute; reflexivity.
Qed.

Print Assumptions C04_ex_world.
Print Assumptions C04_ex_domains_instance.
Print Assumptions C04_ex_good.
Print Assumptions C04_ex_marked.
Print Assumptions C04_ex_cache_filled.
Print Assumptions C04_ex_cache_hit.
Print Assumptions C04_ex_renaming_not_identity.
Print Assumptions C04_ex_batch.
Print Assumptions C04_ex_check_trees.
Print Assumptions C04_good_def.
Print Assumptions C04_cache_ok_def.
Print Assumptions C04_dups_ok_def.
Print Assumptions C04_single_def.
