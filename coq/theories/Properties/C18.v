(** C18 -- the self-loop-free variant agrees with standard evaluation where loops cannot
    matter.  Statements only. *)
From HCTL Require Import Base Syntax MarkDup TT Ops Eval Kripke.
From HCTL Require Import Unsafe.

(** on formulae without EX, AX, AF, EG, AU, EW the evaluator -- with any cache content --
    returns the same result and the same context whatever self-loop set it is given
    (in particular the empty one of model_check_formula_unsafe_ex) *)
Theorem C18_fragment : forall G names sw s1 s2 t U c, in_fragment t ->
  eval_node G names sw s1 t U c = eval_node G names sw s2 t U c.
Proof. exact fragment_ignores_steady. Qed.
Print Assumptions C18_fragment.

(** on a network in which no valid colour has a steady state the self-loop set computed by
    the standard entry points is the empty set that the unsafe variant passes *)
Theorem C18_no_steady : forall G, NoDup (g_L G) -> (forall i, shaped (g_L G) (upd_of G i)) ->
  (forall i, i < g_n G -> In (TS i) (g_L G)) ->
  forall U, shaped (g_L G) U ->
  (forall v, mem (g_L G) U v = true -> ~ vsteady G v) -> steady_of G U = empty G.
Proof. exact no_steady_states_empty. Qed.
Print Assumptions C18_no_steady.
