#!/usr/bin/env python3
"""Regenerate MANIFEST.json from the table below and the theorem files that exist."""
import json, os
V = os.path.dirname(os.path.abspath(__file__))
TABLE = json.load(open(os.path.join(V, "manifest_table.json")))
checks = []
for pid, e in TABLE["checks"].items():
    has_thm = os.path.exists(os.path.join(V, "coq/theories/Properties/%s.v" % pid))
    checks.append({
        "property_id": pid,
        "quick_cmd": "./check.py %s --tier quick" % pid,
        "thorough_cmd": "./check.py %s --tier thorough" % pid,
        "evidence_file": "/verif/evidence/%s.json" % pid,
        "replay_cmd_template": "./check.py %s --replay {path}" % pid,
        "engine": "coq-model+correspondence",
        "level_claimed": {"category": "proof" if has_thm else "exploration",
                          "text": e["text"], "design_ref": e.get("design_ref", "DESIGN.md section 6")},
        "level_note": e["note"],
        "technique": e["technique"] if has_thm else "differential check against the executable Coq model and oracle (theorems pending)",
    })
m = {
    "version": 1,
    "setup_cmd": "./setup.sh",
    "hooks": {"guard": "hctl_verif", "enable": "RUSTFLAGS=\"--cfg hctl_verif\" (set by vlib/run.py when it builds harness/ against /repo)",
              "baseline_off_cmd": "cd /repo && cargo test --workspace --no-fail-fast --offline",
              "source_commits": TABLE["hook_commits"], "add_only": True},
    "engines": [{"name": "coq-model+correspondence", "path": "/verif/coq, /verif/ocaml, /verif/harness, /verif/vlib",
                 "serves_properties": list(TABLE["checks"].keys()),
                 "kind_free_text": "Coq 8.16 theorems about a hand-written executable model of the crate; model extracted to OCaml and compared with the implementation and with a specification-level oracle on generated inputs at every run"}],
    "checks": checks,
    "notes": TABLE["notes"],
    "not_applicable": TABLE["not_applicable"],
}
json.dump(m, open(os.path.join(V, "MANIFEST.json"), "w"), indent=1)
print("MANIFEST.json: %d checks, %d not_applicable" % (len(checks), len(m["not_applicable"])))
