#!/bin/bash
# usage: seed_confirm.sh <Cxx> [name] : confirm a seeded change in its scratch worktree /tmp/wt-<name>:
#  with the patch: crate builds, the pinned tests pass, the demo fails; without: the demo passes.
id=$1; name=${2:-$1}; wt=/tmp/wt-$name; sd=/tmp/seed-$name
export CARGO_NET_OFFLINE=true CARGO_TARGET_DIR=$wt/target
cd $wt || exit 2
git checkout -q -- src; git apply $sd/patch.diff || { echo "PATCH-DOES-NOT-APPLY"; exit 2; }
mkdir -p tests; cp $sd/seed_demo.rs tests/seed_demo.rs
t1=$(cargo test --offline --lib 2>&1 | grep "test result" | head -1)
d1=$(cargo test --offline --test seed_demo 2>&1 | grep "test result" | head -1)
git checkout -q -- src
d0=$(cargo test --offline --test seed_demo 2>&1 | grep "test result" | head -1)
git apply $sd/patch.diff
echo "with-patch lib: $t1"
echo "with-patch demo: $d1"
echo "without-patch demo: $d0"
