(* Hand-written driver around the extracted model (hctl_model.ml).
   Reads case lines (tab separated), runs the extracted model / oracle, prints one answer line
   per case:   <id> OK <payload> | <id> ERR <kind> | <id> PANIC <site> | <id> FUEL
   Strings travel as dot-separated hexadecimal code points ("-" = empty string). *)
open Hctl_model

(* ---------- conversions ---------- *)
let rec pos_of_int (i : int) : positive =
  if i = 1 then XH else if i land 1 = 0 then XO (pos_of_int (i lsr 1)) else XI (pos_of_int (i lsr 1))
let n_of_int (i : int) : n = if i = 0 then N0 else Npos (pos_of_int i)
let rec int_of_pos = function XH -> 1 | XO p -> 2 * int_of_pos p | XI p -> 2 * int_of_pos p + 1
let int_of_n = function N0 -> 0 | Npos p -> int_of_pos p
let rec nat_of_int (i : int) : nat = if i <= 0 then O else S (nat_of_int (i - 1))
let rec int_of_nat = function O -> 0 | S m -> 1 + int_of_nat m

let split_on c s = if s = "" then [] else String.split_on_char c s

let str_of_hex (s : string) : str =
  if s = "-" then [] else List.map (fun h -> n_of_int (int_of_string ("0x" ^ h))) (split_on '.' s)
let hex_of_str (s : str) : string =
  if s = [] then "-" else String.concat "." (List.map (fun c -> Printf.sprintf "%x" (int_of_n c)) s)

let bits_of_string (s : string) : bool list =
  List.init (String.length s) (fun i -> s.[i] = '1')
let string_of_bits (bs : bool list) : string =
  let b = Buffer.create 64 in
  List.iter (fun x -> Buffer.add_char b (if x then '1' else '0')) bs;
  Buffer.contents b

let tt_of_string (l : layout) (s : string) : tt = fst (of_bits l (bits_of_string s))
let string_of_tt (t : tt) : string = string_of_bits (to_bits t [])

(* ---------- printers ---------- *)
let errkind_s = function
  | ELex -> "Lex" | EParse -> "Parse" | EFreeVar -> "FreeVar" | ERequantified -> "Requantified"
  | EUnknownProp -> "UnknownProp" | EMissingContext -> "MissingContext" | EVarSupport -> "VarSupport"
let panic_s = function
  | PWildCardUnreachable -> "WildCardUnreachable" | PDomainLookup -> "DomainLookup"
  | PReverseRenaming -> "ReverseRenaming" | PExtraVarIndex -> "ExtraVarIndex"
  | PRestrictedUnitEmpty -> "RestrictedUnitEmpty"
  | PSanitizeDependsOnExtras -> "SanitizeDependsOnExtras" | PPropLookup -> "PropLookup"
  | PDupCounter -> "DupCounter" | PShape -> "Shape" | PHybridQuantifier -> "HybridQuantifier"

let unop_s = function Not -> "Not" | EX -> "EX" | AX -> "AX" | EF -> "EF" | AF -> "AF" | EG -> "EG" | AG -> "AG"
let binop_s = function
  | And -> "And" | Or -> "Or" | Xor -> "Xor" | Imp -> "Imp" | Iff -> "Iff"
  | EU -> "EU" | AU -> "AU" | EW -> "EW" | AW -> "AW"
let hybop_s = function Bind -> "Bind" | Jump -> "Jump" | Exists -> "Exists" | Forall -> "Forall"
let atom_s = function
  | AProp s -> "P:" ^ hex_of_str s | AVar s -> "V:" ^ hex_of_str s
  | ATrue -> "1" | AFalse -> "0" | AWild s -> "W:" ^ hex_of_str s
let opt_s = function None -> "_" | Some s -> hex_of_str s

(* tree with the stored text/height of every node (as annotate computes them) *)
let rec snode_s (SNode (text, h, shape)) : string =
  let hd = Printf.sprintf "%s %d" (hex_of_str text) (int_of_nat h) in
  match shape with
  | STerminal a -> Printf.sprintf "(T %s %s)" (atom_s a) hd
  | SUnary (o, c) -> Printf.sprintf "(U %s %s %s)" (unop_s o) hd (snode_s c)
  | SBinary (o, l, r) -> Printf.sprintf "(B %s %s %s %s)" (binop_s o) hd (snode_s l) (snode_s r)
  | SHybrid (o, x, d, c) ->
      Printf.sprintf "(H %s %s %s %s %s)" (hybop_s o) (hex_of_str x) (opt_s d) hd (snode_s c)
let tree_s (t : tree) : string = snode_s (annotate t)

let rec token_s = function
  | TUn o -> "u" ^ unop_s o
  | TBin o -> "b" ^ binop_s o
  | THyb (o, x, d) -> Printf.sprintf "h%s:%s:%s" (hybop_s o) (hex_of_str x) (opt_s d)
  | TAtom a -> "a" ^ atom_s a
  | TGroup ts -> "(" ^ String.concat " " (List.map token_s ts) ^ ")"

let answer id (r : string res) =
  match r with
  | Ok s -> Printf.printf "%s OK %s\n" id s
  | Err e -> Printf.printf "%s ERR %s\n" id (errkind_s e)
  | Panic p -> Printf.printf "%s PANIC %s\n" id (panic_s p)
  | OutOfFuel -> Printf.printf "%s FUEL\n" id

let rmap f = function Ok a -> Ok (f a) | Err e -> Err e | Panic p -> Panic p | OutOfFuel -> OutOfFuel


(* ---------- converter helpers ---------- *)
let utf8_of_str (s : str) : string =
  let b = Buffer.create 16 in
  List.iter (fun c -> Buffer.add_utf_8_uchar b (Uchar.of_int (int_of_n c))) s;
  Buffer.contents b
let hex_of_utf8 (s : string) : string =
  (* names are ASCII here *)
  if s = "" then "-" else String.concat "." (List.map (fun c -> Printf.sprintf "%x" (Char.code c)) (List.of_seq (String.to_seq s)))
let index_in x l =
  let rec go i = function [] -> None | y :: r -> if x = y then Some i else go (i + 1) r in go 0 l

(* (c 0|1) (v i) (n f) (b op f g) (p namehex args...) *)
let fn_of_sexpr (s : string) : fnupd =
  let toks = ref (List.filter (fun x -> x <> "")
      (String.split_on_char ' ' (String.concat " ) " (String.split_on_char ')' (String.concat " ( " (String.split_on_char '(' s)))))) in
  let next () = match !toks with t :: r -> toks := r; t | [] -> failwith "sexpr: eof" in
  let peek () = match !toks with t :: _ -> t | [] -> failwith "sexpr: eof" in
  let rec node () =
    if next () <> "(" then failwith "sexpr: (";
    let k = next () in
    let r = (match k with
      | "c" -> let b = next () in FConst (b = "1")
      | "v" -> FVar (nat_of_int (int_of_string (next ())))
      | "n" -> FNot (node ())
      | "b" -> let op = (match next () with
                  | "and" -> BAnd | "or" -> BOr | "xor" -> BXor | "iff" -> BIff | "imp" -> BImp
                  | _ -> failwith "sexpr: op") in
               let l = node () in let r = node () in FBin (op, l, r)
      | "p" -> let name = str_of_hex (next ()) in
               let args = ref [] in
               while peek () = "(" do args := node () :: !args done;
               FParam (name, List.rev !args)
      | _ -> failwith "sexpr: kind") in
    if next () <> ")" then failwith "sexpr: )";
    r in
  node ()

let rec params_of (f : fnupd) : str list =
  match f with
  | FConst _ | FVar _ -> []
  | FNot g -> params_of g
  | FBin (_, l, r) -> params_of l @ params_of r
  | FParam (n, args) -> n :: List.concat (List.map params_of args)

(* ---------- case handlers ---------- *)
let world_of p n names upd unit_s : world =
  let lpn = x_layout_pn (nat_of_int p) (nat_of_int n) in
  { w_p = nat_of_int p; w_n = nat_of_int n;
    w_names = List.map str_of_hex (split_on ',' names);
    w_upd = List.map (tt_of_string lpn) (split_on ',' upd);
    w_unit = tt_of_string lpn unit_s }

let ctx_of p n (s : string) : (str * tt) list =
  let lpn = x_layout_pn (nat_of_int p) (nat_of_int n) in
  if s = "-" then [] else
  List.map (fun item ->
      match String.split_on_char ':' item with
      | [l; b] -> (str_of_hex l, tt_of_string lpn b)
      | _ -> failwith "bad ctx item") (split_on ',' s)

let has c s = String.contains s c

let handle (line : string) =
  match String.split_on_char '\t' line with
  | "EVAL" :: id :: mode :: p :: n :: k :: names :: upd :: unit_s :: ctx :: formulas :: _ ->
      let p = int_of_string p and n = int_of_string n and k = int_of_string k in
      let w = world_of p n names upd unit_s in
      (* hypotheses of the theorems, checked on every case: tables of the right size, the unit
         set constrains colours only *)
      let size = 1 lsl (p + n) in
      let block = 1 lsl n in
      let colour_only =
        let ok = ref (String.length unit_s = size) in
        if !ok then
          for c = 0 to (1 lsl p) - 1 do
            for j = 1 to block - 1 do
              if unit_s.[c * block + j] <> unit_s.[c * block] then ok := false
            done
          done;
        !ok in
      let tables_ok = List.for_all (fun t -> String.length t = size) (split_on ',' upd)
                      && List.length (split_on ',' upd) = n
                      && List.length (split_on ',' names) = n in
      if not (colour_only && tables_ok) then Printf.printf "%s HYP unit-or-tables-not-as-assumed\n" id;
      let ctx = ctx_of p n ctx in
      let fs = List.map str_of_hex (split_on ',' formulas) in
      if has 'o' mode then begin
        (* specification-level oracle, formula by formula *)
        let rs = List.map (fun f -> x_spec_eval w (has 'e' mode) ctx f) fs in
        let rec all = function
          | [] -> Ok []
          | Ok t :: rest -> rmap (fun l -> string_of_tt t :: l) (all rest)
          | Err e :: _ -> Err e | Panic q :: _ -> Panic q | OutOfFuel :: _ -> OutOfFuel in
        answer id (rmap (String.concat ",") (all rs))
      end else begin
        let m = { m_ext = has 'e' mode; m_sanitize = has 's' mode; m_unsafe_ex = has 'u' mode;
                  m_nocache = has 'c' mode; m_nopatterns = has 'p' mode } in
        let r = x_model_check w (nat_of_int k) m ctx fs in
        answer id (rmap (fun l -> String.concat "," (List.map string_of_tt l)) r)
      end
  | "TOK" :: id :: ext :: chars :: _ ->
      let r = x_tokenize (ext = "1") (str_of_hex chars) in
      answer id (rmap (fun ts -> String.concat " " (List.map token_s ts)) r)
  | "PARSE" :: id :: ext :: chars :: _ ->
      answer id (rmap tree_s (x_parse_formula (ext = "1") (str_of_hex chars)))
  | "PREP" :: id :: ext :: props :: chars :: _ ->
      let props = List.map str_of_hex (split_on ',' props) in
      answer id (rmap tree_s (x_parse_and_minimize (ext = "1") props (str_of_hex chars)))
  | "CANON" :: id :: chars :: _ ->
      let (c, ren) = canonize (str_of_hex chars) in
      let ren = List.sort compare (List.map (fun (a, b) -> hex_of_str a ^ ">" ^ hex_of_str b) ren) in
      Printf.printf "%s OK %s %s\n" id (hex_of_str c) (String.concat "," ren)
  | "DUPS" :: id :: ext :: props :: formulas :: _ ->
      let props = List.map str_of_hex (split_on ',' props) in
      let fs = List.map str_of_hex (split_on ',' formulas) in
      let rec trees = function
        | [] -> Ok []
        | f :: rest ->
            (match x_parse_and_minimize (ext = "1") props f with
             | Ok t -> rmap (fun l -> t :: l) (trees rest)
             | Err e -> Err e | Panic q -> Panic q | OutOfFuel -> OutOfFuel) in
      let r = rmap (fun ts ->
          let d = mark_duplicates ts in
          let items = List.map (fun ((c, doms), cnt) ->
              let ds = List.map (fun (v, d) -> hex_of_str v ^ "=" ^ opt_s d) doms in
              Printf.sprintf "%s[%s]#%d" (hex_of_str c) (String.concat ";" ds) (int_of_nat cnt)) d in
          String.concat "," (List.sort compare items)) (trees fs) in
      answer id r
  | "LOADF" :: id :: text :: _ ->
      let fs = load_formulae (str_of_hex text) in
      Printf.printf "%s OK %s\n" id (String.concat "," (List.map hex_of_str fs))
  | "LABEL" :: id :: label :: _ ->
      (* would the loader pick up the entry <label>.bdd, and under which label? *)
      let entry = (str_of_hex label) @ s_dot_bdd in
      let picked = (match extension entry with Some e -> str_eqb e s_bdd | None -> false) in
      if not picked then Printf.printf "%s OK skipped\n" id
      else (match strip_suffix s_dot_bdd entry with
            | Some l -> Printf.printf "%s OK %s\n" id (hex_of_str l)
            | None -> Printf.printf "%s ERR StripSuffix\n" id)
  | "CONVM" :: id :: names :: present :: items :: _ ->
      let names = List.map str_of_hex (split_on ',' names) in
      let present = List.map int_of_string (split_on ',' present) in
      let isvar (n : str) = List.exists (fun m -> str_eqb n m) names in
      let fuel = nat_of_int 64 in
      let out = List.filter_map (fun item ->
          match String.split_on_char '|' item with
          | [vi; regs; fx] ->
              let vi = int_of_string vi in
              let regs = if regs = "-" then [] else List.map int_of_string (String.split_on_char ';' regs) in
              let upd = if fx = "-" then None else Some (fn_of_sexpr fx) in
              let name = List.nth names vi in
              let flat =
                if regs = [] then upd
                else Some (match upd with
                    | Some f -> flatten_rs isvar fuel f
                    | None -> explode_rs isvar fuel (List.map (fun r -> FVar (nat_of_int r)) regs) (pname name)) in
              (match flat with
               | None -> None
               | Some f ->
                   let ps0 = List.sort_uniq compare (List.map utf8_of_str (params_of f)) in
                   let nv = List.length present in
                   let value ps bitf =
                     let s (v : nat) =
                       let v = int_of_nat v in
                       (match index_in v present with Some j -> bitf j | None -> false) in
                     let rho (nm : str) =
                       (match index_in (utf8_of_str nm) ps with Some j -> bitf (nv + j) | None -> false) in
                     eval_flat rho s f in
                   (* keep the constants the function really depends on (the implementation side
                      reads them off the BDD support) *)
                   let np0 = List.length ps0 in
                   let depends j =
                     let found = ref false in
                     for idx = 0 to (1 lsl (nv + np0)) - 1 do
                       if not !found then begin
                         let bit i = (idx lsr (nv + np0 - 1 - i)) land 1 = 1 in
                         if not (bit (nv + j)) then begin
                           let flipped i = if i = nv + j then true else bit i in
                           if value ps0 bit <> value ps0 flipped then found := true
                         end
                       end
                     done; !found in
                   let ps = List.filteri (fun j _ -> depends j) ps0 in
                   let np = List.length ps in
                   let buf = Buffer.create 64 in
                   for idx = 0 to (1 lsl (nv + np)) - 1 do
                     let bit j = (idx lsr (nv + np - 1 - j)) land 1 = 1 in
                     Buffer.add_char buf (if value ps bit then '1' else '0')
                   done;
                   Some (Printf.sprintf "%s:%s:%s" (hex_of_str name)
                           (String.concat ";" (List.map hex_of_utf8 ps)) (Buffer.contents buf)))
          | _ -> failwith "bad CONVM item") (split_on ',' items) in
      Printf.printf "%s OK %s\n" id (String.concat "," out)
  | [""] | [] -> ()
  | _ -> Printf.printf "? BADLINE %s\n" (String.sub line 0 (min 40 (String.length line)))

let () =
  let ic = if Array.length Sys.argv > 1 then open_in Sys.argv.(1) else stdin in
  (try
     while true do
       let line = input_line ic in
       (try handle line with
        | Stack_overflow -> print_endline "? STACKOVERFLOW"
        | Failure m -> Printf.printf "? FAILURE %s\n" m);
     done
   with End_of_file -> ());
  flush stdout
