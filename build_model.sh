#!/bin/bash
# Build the Coq development (full .vo build) and the extracted OCaml driver.
set -e
cd "$(dirname "$0")"
mkdir -p .build/ocaml
cd coq
[ -f Makefile ] || coq_makefile -f _CoqProject -o Makefile >/dev/null
timeout 3000 make -j16 "$@"
cd ..
if [ coq/hctl_model.ml -nt .build/ocaml/driver ] || [ ocaml/driver.ml -nt .build/ocaml/driver ] || [ ! -x .build/ocaml/driver ]; then
  cp coq/hctl_model.ml coq/hctl_model.mli ocaml/driver.ml .build/ocaml/
  (cd .build/ocaml && ocamlfind ocamlopt -O3 -unboxed-types 2>/dev/null hctl_model.mli hctl_model.ml driver.ml -o driver || ocamlfind ocamlopt -w -a hctl_model.mli hctl_model.ml driver.ml -o driver)
fi
