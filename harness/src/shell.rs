//! Requests concerning the shell of the crate (archives, CLI, converter) -- filled in later.
use std::io::Write;

pub fn run(fields: &[&str], _cases: &mut impl Write, out: &mut impl Write, _line: &str) {
    writeln!(out, "{} SKIP unknown-request", fields.get(1).unwrap_or(&"?")).unwrap();
}
