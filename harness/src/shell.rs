//! Requests concerning colour slices (C20), result archives (C16), the CLI (C17) and the
//! aeon-to-bnet converter (C19).
use crate::*;
use biodivine_hctl_model_checker::analysis::{analyse_formula, analyse_formulae};
use biodivine_hctl_model_checker::generate_output::build_result_archive;
use biodivine_hctl_model_checker::result_print::PrintOptions;
use biodivine_hctl_model_checker::load_inputs::{load_bdd_bundle, load_formulae};
use biodivine_lib_param_bn::symbolic_async_graph::GraphColors;
use std::io::Read as IoRead;
use std::process::{Command, Stdio};

fn work_dir() -> String {
    let d = std::env::var("HCTL_WORK").unwrap_or_else(|_| "/verif/.build/work/tmp".to_string());
    std::fs::create_dir_all(&d).ok();
    d
}

fn bin_dir() -> String {
    std::env::var("HCTL_BIN_DIR").unwrap_or_else(|_| "/verif/.build/target-bin/release".to_string())
}

fn clean(s: &str) -> String {
    s.replace(['\t', '\n', '\r'], " ").chars().take(300).collect()
}

pub fn run(fields: &[&str], cases: &mut impl Write, out: &mut impl Write, _line: &str) {
    let id = fields.get(1).copied().unwrap_or("?");
    let r = catch_unwind(AssertUnwindSafe(|| match fields[0] {
        "SLICE" => run_slice(fields, cases, out),
        "ARCH" => run_arch(fields, out),
        "CLI" => run_cli(fields, out),
        "CONV" => run_conv(fields, out),
        "LOADF" => {
            writeln!(cases, "{_line}").unwrap();
            run_loadf(fields, out)
        }
        "LABEL" => {
            writeln!(cases, "{_line}").unwrap();
            run_label(fields, out)
        }
        "CONVM" => run_convm(fields, cases, out),
        "EQV" => run_eqv(fields, out),
        "LIBR" => run_libr(fields, out),
        "SLICEB" => run_sliceb(fields, out),
        "UNSAFE" => run_unsafe(fields, out),
        _ => writeln!(out, "{id} SKIP unknown-request").unwrap(),
    }));
    if let Err(e) = r {
        writeln!(out, "{id} PANIC {}", panic_msg(e)).unwrap();
    }
}

/// SLICE id k net formulas [maxcolours]
/// For every valid colour c: the parametrised result sliced at c (reported as the
/// "implementation answer" of the sub-case id#c<j>, whose model/oracle case is the network
/// instantiated by c, given by its sliced update tables) and the result computed on
/// pick_witness(c) (sub-case id#w<j>).
fn run_slice(fields: &[&str], cases: &mut impl Write, out: &mut impl Write) {
    let id = fields[1];
    let k: usize = fields[2].parse().unwrap();
    let w = match build_world(fields[3], k) {
        Ok(w) => w,
        Err(e) => {
            writeln!(out, "{id} SKIP network:{}", clean(&e)).unwrap();
            return;
        }
    };
    let formulas: Vec<String> = split_list(fields[4]).iter().map(|h| unhex(h)).collect();
    let maxc: usize = fields.get(5).map(|x| x.parse().unwrap()).unwrap_or(16);
    let fs: Vec<&str> = formulas.iter().map(|s| s.as_str()).collect();
    let p = w.p();
    let n = w.n();
    // optional context sets (extended formulae): label=spec; the model side gets their slices
    let mut context: HashMap<String, GraphColoredVertices> = HashMap::new();
    let mut ctx_bits: Vec<(String, String)> = Vec::new();
    if let Some(specs) = fields.get(6) {
        for item in split_list(specs) {
            if item == "-" || item.is_empty() {
                continue;
            }
            let (label, spec) = item.split_once('=').unwrap();
            match crate::make_context_set(&w, spec) {
                Ok((set, Some(bits))) => {
                    context.insert(unhex(label), set);
                    ctx_bits.push((label.to_string(), bits));
                }
                Ok((_, None)) => {
                    writeln!(out, "{id} SKIP context:no-table").unwrap();
                    return;
                }
                Err(e) => {
                    writeln!(out, "{id} SKIP context:{}", clean(&e)).unwrap();
                    return;
                }
            }
        }
    }
    let extended = !context.is_empty();
    let res = if extended {
        model_check_multiple_extended_formulae(fs.clone(), &w.graph, &context)
    } else {
        model_check_multiple_formulae(fs.clone(), &w.graph)
    };
    let res = match res {
        Ok(r) => r,
        Err(e) => {
            writeln!(out, "{id} ERR {}", clean(&e)).unwrap();
            return;
        }
    };
    let canon = w.graph.symbolic_context().as_canonical_context();
    let ext_set = w.graph.symbolic_context().bdd_variable_set();
    let can_set = canon.bdd_variable_set();
    let order: Vec<BddVariable> = w
        .order_pn
        .iter()
        .map(|v| can_set.var_by_name(ext_set.name_of(*v).as_str()).unwrap())
        .collect();
    let bits: Vec<String> = res.iter().map(|s| bits_of(s.as_bdd(), &order)).collect();
    let (names, upd, unit) = w.describe();
    let upd_tables: Vec<&str> = upd.split(',').collect();
    writeln!(out, "{id} OK {}", bits.join(",")).unwrap();
    writeln!(out, "{id} INFO {p} {n}").unwrap();
    let ncol = 1usize << p;
    let valid: Vec<usize> = (0..ncol)
        .filter(|c| unit.as_bytes()[c << n] == b'1')
        .collect();
    let step = std::cmp::max(1, valid.len() / maxc);
    for (cnt, c) in valid.iter().step_by(step).enumerate() {
        if cnt >= maxc {
            break;
        }
        let lo = c << n;
        let hi = lo + (1 << n);
        // the network instantiated by colour c, as tables over the states only
        let upd_c: Vec<&str> = upd_tables.iter().map(|t| &t[lo..hi]).collect();
        let unit_c = "1".repeat(1 << n);
        let ctx_c: Vec<String> = ctx_bits.iter().map(|(l, b)| format!("{l}:{}", &b[lo..hi])).collect();
        for suffix in ["", "#o"] {
            writeln!(
                cases,
                "EVAL\t{id}#c{c}{suffix}\t{}s{}\t0\t{n}\t{k}\t{names}\t{}\t{unit_c}\t{}\t{}",
                if extended { "e" } else { "" },
                if suffix.is_empty() { "" } else { "o" },
                upd_c.join(","),
                if ctx_c.is_empty() { "-".to_string() } else { ctx_c.join(",") },
                fields[4]
            )
            .unwrap();
        }
        let sliced: Vec<&str> = bits.iter().map(|b| &b[lo..hi]).collect();
        writeln!(out, "{id}#c{c} OK {}", sliced.join(",")).unwrap();
        writeln!(out, "{id}#c{c} INFO 0 {n}").unwrap();
        // pick_witness of the singleton colour
        let mut partial = Vec::new();
        for (j, var) in w.order_pn[..p].iter().enumerate() {
            partial.push((*var, (c >> (p - 1 - j)) & 1 == 1));
        }
        let pv = BddPartialValuation::from_values(&partial);
        let clause = w
            .graph
            .symbolic_context()
            .bdd_variable_set()
            .mk_conjunctive_clause(&pv);
        let colour = GraphColors::new(clause, w.graph.symbolic_context());
        let colour = colour.intersect(w.graph.unit_colors());
        if extended {
            continue; // context sets are given on the parametrised graph only
        }
        let r = catch_unwind(AssertUnwindSafe(|| -> Result<String, String> {
            let witness = w.graph.pick_witness(&colour);
            let g2 = get_extended_symbolic_graph(&witness, k as u16)?;
            let r2 = model_check_multiple_formulae(fs.clone(), &g2)?;
            let c2 = g2.symbolic_context().as_canonical_context();
            let order2 = model_order(&c2, false);
            if c2.num_parameter_variables() != 0 {
                return Err("witness network still has parameters".into());
            }
            Ok(r2
                .iter()
                .map(|s| bits_of(s.as_bdd(), &order2))
                .collect::<Vec<_>>()
                .join(","))
        }));
        match r {
            Ok(Ok(s)) => writeln!(out, "{id}#w{c} OK {s}").unwrap(),
            Ok(Err(e)) => writeln!(out, "{id}#w{c} ERR {}", clean(&e)).unwrap(),
            Err(e) => writeln!(out, "{id}#w{c} PANIC {}", panic_msg(e)).unwrap(),
        }
    }
}

/// ARCH id k net ctxspecs formulas usage-formulas
/// Write label -> set map with build_result_archive, read it back with a graph rebuilt from
/// the archived model, compare.
fn run_arch(fields: &[&str], out: &mut impl Write) {
    let id = fields[1];
    let k: usize = fields[2].parse().unwrap();
    let w = match build_world(fields[3], k) {
        Ok(w) => w,
        Err(e) => {
            writeln!(out, "{id} SKIP network:{}", clean(&e)).unwrap();
            return;
        }
    };
    let mut sets: HashMap<String, GraphColoredVertices> = HashMap::new();
    for item in split_list(fields[4]) {
        if item == "-" {
            continue;
        }
        let (label, spec) = item.split_once('=').unwrap();
        match make_context_set_pub(&w, spec) {
            Ok(s) => {
                sets.insert(unhex(label), s);
            }
            Err(e) => {
                writeln!(out, "{id} SKIP context:{}", clean(&e)).unwrap();
                return;
            }
        }
    }
    let formulas: Vec<String> = split_list(fields[5]).iter().map(|h| unhex(h)).collect();
    let usage: Vec<String> = split_list(fields.get(6).copied().unwrap_or("")).iter().map(|h| unhex(h)).collect();
    let path = format!("{}/arch-{}-{}.zip", work_dir(), std::process::id(), id);
    let mut problems: Vec<String> = Vec::new();
    // the path is in use: an earlier, longer archive is there (the new one must replace it)
    {
        let mut longer = sets.clone();
        for i in 0..6 {
            longer.insert(format!("earlier-{i}"), w.graph.mk_unit_colored_vertices());
        }
        let mut fs2 = formulas.clone();
        fs2.push("true".to_string());
        let _ = build_result_archive(longer, &path, w.bn.to_string().as_str(), fs2);
    }
    if let Err(e) = build_result_archive(sets.clone(), &path, w.bn.to_string().as_str(), formulas.clone()) {
        writeln!(out, "{id} ERR write:{}", clean(&e.to_string())).unwrap();
        return;
    }
    // entries
    let file = std::fs::File::open(&path).unwrap();
    let mut zip = zip::ZipArchive::new(file).unwrap();
    let names: Vec<String> = zip.file_names().map(|s| s.to_string()).collect();
    if names.len() != sets.len() + 2 {
        problems.push(format!("archive has {} entries for {} sets", names.len(), sets.len()));
    }
    let mut model_text = String::new();
    match zip.by_name("model.aeon") {
        Ok(mut f) => {
            f.read_to_string(&mut model_text).unwrap();
        }
        Err(_) => problems.push("model.aeon missing".into()),
    }
    let mut formulae_text = String::new();
    match zip.by_name("formulae.txt") {
        Ok(mut f) => {
            f.read_to_string(&mut formulae_text).unwrap();
        }
        Err(_) => problems.push("formulae.txt missing".into()),
    }
    let lines: Vec<&str> = formulae_text.lines().collect();
    if lines.len() != formulas.len() || lines.iter().zip(formulas.iter()).any(|(a, b)| *a != b.as_str()) {
        problems.push("formulae.txt does not list the formulae in order".into());
    }
    // graph rebuilt from the archived model
    match BooleanNetwork::try_from(model_text.as_str()).and_then(|bn2| get_extended_symbolic_graph(&bn2, k as u16)) {
        Err(e) => problems.push(format!("archived model does not load: {}", clean(&e))),
        Ok(g2) => {
            let c1 = w.graph.symbolic_context();
            let c2 = g2.symbolic_context();
            if c1.bdd_variable_set().num_vars() != c2.bdd_variable_set().num_vars()
                || (0..c1.bdd_variable_set().num_vars()).any(|i| {
                    let v = c1.bdd_variable_set().variables()[i as usize];
                    let v2 = c2.bdd_variable_set().variables()[i as usize];
                    c1.bdd_variable_set().name_of(v) != c2.bdd_variable_set().name_of(v2)
                })
            {
                problems.push("symbolic context of the archived model differs".into());
            } else {
                match load_bdd_bundle(&path, c2) {
                    Err(e) => problems.push(format!("load_bdd_bundle: {}", clean(&e))),
                    Ok(loaded) => {
                        if loaded.len() != sets.len() {
                            problems.push(format!("{} sets written, {} loaded", sets.len(), loaded.len()));
                        }
                        for (l, s) in sets.iter() {
                            match loaded.get(l) {
                                None => problems.push(format!("label {} not reloaded", hex(l))),
                                Some(s2) => {
                                    if s2.as_bdd() != s.as_bdd() {
                                        problems.push(format!("set {} differs after reload", hex(l)));
                                    }
                                }
                            }
                        }
                        // reloaded sets used as context have the same effect
                        for f in &usage {
                            let a = model_check_extended_formula(f.as_str(), &w.graph, &sets);
                            let b = model_check_extended_formula(f.as_str(), &g2, &loaded);
                            let same = match (&a, &b) {
                                (Ok(x), Ok(y)) => x.as_bdd() == y.as_bdd(),
                                (Err(_), Err(_)) => true,
                                _ => false,
                            };
                            if !same {
                                problems.push(format!("formula {} differs with reloaded context", hex(f)));
                            }
                        }
                    }
                }
            }
        }
    }
    std::fs::remove_file(&path).ok();
    // archives written by the analysis entry points of the library (one formula / the whole list):
    // formula-i must reload to the result of formula i
    let plain: Vec<String> = formulas.iter().filter(|f| !f.contains('%')).cloned().collect();
    if !plain.is_empty() {
        let runs: Vec<(String, Vec<String>)> = vec![
            ("analyse_formula".to_string(), vec![plain[0].clone()]),
            ("analyse_formulae".to_string(), plain.clone()),
        ];
        for (what, fs) in runs {
            let apath = format!("{}/ana-{}-{}-{}.zip", work_dir(), std::process::id(), id, what);
            let r = if what == "analyse_formula" {
                analyse_formula(&w.bn, fs[0].clone(), PrintOptions::NoPrint, Some(apath.clone()), None)
            } else {
                analyse_formulae(&w.bn, fs.clone(), PrintOptions::NoPrint, Some(apath.clone()), None)
            };
            match r {
                Err(e) => {
                    // an invalid formula of the list is reported, not archived: nothing to compare
                    if fs.iter().all(|f| {
                        get_extended_symbolic_graph(&w.bn, 3)
                            .and_then(|g| model_check_formula_dirty(f.as_str(), &g))
                            .is_ok()
                    }) {
                        problems.push(format!("{what} failed on valid formulae: {}", clean(&e)));
                    }
                }
                Ok(()) => {
                    // the analysis builds its own graph: as many spare sets as the formulae need
                    let need = fs
                        .iter()
                        .filter_map(|f| parse_and_minimize_hctl_formula(w.graph.symbolic_context(), f.as_str()).ok())
                        .map(|t| collect_unique_hctl_vars(t).len())
                        .max()
                        .unwrap_or(0);
                    match get_extended_symbolic_graph(&w.bn, need as u16) {
                        Err(e) => problems.push(format!("graph: {}", clean(&e))),
                        Ok(g) => match load_bdd_bundle(&apath, g.symbolic_context()) {
                            Err(e) => problems.push(format!("{what}: archive does not reload: {}", clean(&e))),
                            Ok(loaded) => {
                                if loaded.len() != fs.len() {
                                    problems.push(format!("{what}: {} formulae, {} archived sets", fs.len(), loaded.len()));
                                }
                                for (i, f) in fs.iter().enumerate() {
                                    let want = model_check_formula_dirty(f.as_str(), &g);
                                    match (loaded.get(&format!("formula-{i}")), want) {
                                        (Some(s), Ok(x)) => {
                                            if s.as_bdd() != x.as_bdd() {
                                                problems.push(format!("{what}: formula-{i} is not the result of line {i}"));
                                            }
                                        }
                                        (None, Ok(_)) => problems.push(format!("{what}: formula-{i} missing")),
                                        _ => {}
                                    }
                                }
                            }
                        },
                    }
                }
            }
            std::fs::remove_file(&apath).ok();
        }
    }
    if problems.is_empty() {
        writeln!(out, "{id} OK {} sets, {} formulae", sets.len(), formulas.len()).unwrap();
    } else {
        writeln!(out, "{id} ERR {}", clean(&problems.join("; "))).unwrap();
    }
}

pub fn make_context_set_pub(w: &World, spec: &str) -> Result<GraphColoredVertices, String> {
    crate::make_context_set_for_shell(w, spec)
}

/// run a binary with arguments and stdin, return (exit ok, stdout)
fn run_bin(name: &str, args: &[&str], stdin: Option<&str>) -> Result<(bool, String), String> {
    let path = format!("{}/{}", bin_dir(), name);
    let mut child = Command::new(&path)
        .args(args)
        .stdin(Stdio::piped())
        .stdout(Stdio::piped())
        .stderr(Stdio::piped())
        .spawn()
        .map_err(|e| format!("cannot run {path}: {e}"))?;
    if let Some(s) = stdin {
        use std::io::Write as W2;
        child.stdin.as_mut().unwrap().write_all(s.as_bytes()).ok();
    }
    drop(child.stdin.take());
    let o = child.wait_with_output().map_err(|e| e.to_string())?;
    Ok((o.status.success(), String::from_utf8_lossy(&o.stdout).to_string() + &String::from_utf8_lossy(&o.stderr)))
}

fn strip_ansi(s: &str) -> String {
    let mut out = String::new();
    let mut it = s.chars().peekable();
    while let Some(c) = it.next() {
        if c == '\u{1b}' {
            for d in it.by_ref() {
                if d.is_ascii_alphabetic() {
                    break;
                }
            }
        } else {
            out.push(c);
        }
    }
    out
}

/// CLI id fmt model-text formula-file-text printopt ctxspecs
/// fmt in aeon|bnet|sbml ; compares the binary's printed counts, listed states and the -o
/// archive with the library API.
fn run_cli(fields: &[&str], out: &mut impl Write) {
    let id = fields[1];
    let fmt = fields[2];
    let model_text = unhex(fields[3]);
    let ftext = unhex(fields[4]);
    let popt = fields[5];
    let ctxspec_raw = fields.get(6).copied().unwrap_or("-");
    // "!corrupt:<spec>" = one entry of the context archive is not a BDD;
    // "!otherk:<spec>" = the archive was written with one more spare set than this run needs
    let (ctx_fault, ctxspec) = if let Some(r) = ctxspec_raw.strip_prefix("!corrupt:") {
        ("corrupt", r)
    } else if let Some(r) = ctxspec_raw.strip_prefix("!otherk:") {
        ("otherk", r)
    } else {
        ("", ctxspec_raw)
    };
    let dir = format!("{}/cli-{}-{}", work_dir(), std::process::id(), id);
    std::fs::create_dir_all(&dir).unwrap();
    let mpath = format!("{dir}/model.{fmt}");
    let fpath = format!("{dir}/formulae.txt");
    std::fs::write(&mpath, &model_text).unwrap();
    std::fs::write(&fpath, &ftext).unwrap();
    let opath = format!("{dir}/out.zip");
    let mut problems: Vec<String> = Vec::new();

    // the library side
    let bn = match BooleanNetwork::try_from_file(&mpath) {
        Ok(b) => b,
        Err(e) => {
            // the binary must report this as a message
            let r = run_bin("hctl-model-checker", &[&mpath, &fpath], None);
            std::fs::remove_dir_all(&dir).ok();
            match r {
                Ok((true, o)) if o.contains("Model is corrupted") => {
                    writeln!(out, "{id} OK unreadable-model-reported").unwrap()
                }
                Ok((ok, o)) => writeln!(out, "{id} ERR unreadable model ({}) not reported: exit ok={ok} {}", clean(&e), clean(&o)).unwrap(),
                Err(e2) => writeln!(out, "{id} SKIP {}", clean(&e2)).unwrap(),
            }
            return;
        }
    };
    let formulas = load_formulae(&fpath).unwrap_or_default();
    // expected formula list by an independent reading of the file
    let expected: Vec<String> = ftext
        .split('\n')
        .map(|l| l.strip_suffix('\r').unwrap_or(l))
        .map(|l| l.trim())
        .filter(|l| !l.is_empty() && !l.starts_with('#'))
        .map(|l| l.to_string())
        .collect();
    if formulas != expected {
        problems.push(format!("load_formulae returned {:?}, the file lists {:?}", formulas, expected));
    }
    // number of spare sets: enough for every formula
    let use_ext = ctxspec != "-";
    let plain_ctx = SymbolicContext::new(&bn).unwrap();
    let mut maxv = 0usize;
    let mut parse_error = false;
    for f in &formulas {
        let t = if use_ext {
            parse_and_minimize_extended_formula(&plain_ctx, f)
        } else {
            parse_and_minimize_hctl_formula(&plain_ctx, f)
        };
        match t {
            Ok(t) => {
                maxv = maxv.max(biodivine_hctl_model_checker::mc_utils::collect_unique_hctl_vars(t).len())
            }
            Err(_) => parse_error = true,
        }
    }
    let graph = match get_extended_symbolic_graph(&bn, maxv as u16) {
        Ok(g) => g,
        Err(e) => {
            std::fs::remove_dir_all(&dir).ok();
            writeln!(out, "{id} SKIP graph:{}", clean(&e)).unwrap();
            return;
        }
    };
    // optional context archive
    let mut context: HashMap<String, GraphColoredVertices> = HashMap::new();
    let cpath = format!("{dir}/ctx.zip");
    if use_ext {
        let w = World {
            bn: bn.clone(),
            order_pn: model_order(graph.symbolic_context(), false),
            order_full: model_order(graph.symbolic_context(), true),
            graph: graph.clone(),
            k: maxv,
        };
        for item in split_list(ctxspec) {
            if item == "-" {
                continue;
            }
            let (label, spec) = item.split_once('=').unwrap();
            if let Ok(s) = make_context_set_pub(&w, spec) {
                context.insert(unhex(label), s);
            }
        }
        if ctx_fault == "otherk" {
            // the same sets, written by a run with another number of spare sets
            let g2 = get_extended_symbolic_graph(&bn, (maxv + 1) as u16).unwrap();
            let w2 = World {
                bn: bn.clone(),
                order_pn: model_order(g2.symbolic_context(), false),
                order_full: model_order(g2.symbolic_context(), true),
                graph: g2.clone(),
                k: maxv + 1,
            };
            let mut other: HashMap<String, GraphColoredVertices> = HashMap::new();
            for item in split_list(ctxspec) {
                if item == "-" {
                    continue;
                }
                let (label, spec) = item.split_once('=').unwrap();
                if let Ok(s) = make_context_set_pub(&w2, spec) {
                    other.insert(unhex(label), s);
                }
            }
            build_result_archive(other, &cpath, bn.to_string().as_str(), vec![]).unwrap();
        } else {
            build_result_archive(context.clone(), &cpath, bn.to_string().as_str(), vec![]).unwrap();
        }
        if ctx_fault == "corrupt" {
            // rewrite the archive with one entry that is not a BDD
            use std::io::Write as W3;
            let file = std::fs::File::create(&cpath).unwrap();
            let mut zw = zip::ZipWriter::new(file);
            for (l, set) in context.iter() {
                zw.start_file(format!("{l}.bdd"), zip::write::FileOptions::default()).unwrap();
                set.as_bdd().write_as_string(&mut zw).unwrap();
            }
            zw.start_file("broken.bdd", zip::write::FileOptions::default()).unwrap();
            zw.write_all(b"this is |not, a bdd").unwrap();
            zw.finish().unwrap();
        }
    }
    if !ctx_fault.is_empty() {
        // unreadable / unusable context: a message, a normal exit, no results
        let mut args: Vec<&str> = vec![&mpath, &fpath, "-o", &opath, "-p", popt, "-e", &cpath];
        let r = run_bin("hctl-model-checker", &args, None);
        args.clear();
        let produced = std::path::Path::new(&opath).exists();
        std::fs::remove_dir_all(&dir).ok();
        match r {
            Ok((true, _)) if !produced => writeln!(out, "{id} OK faulty-context-reported").unwrap(),
            Ok((ok, o)) => writeln!(
                out,
                "{id} ERR context archive fault `{ctx_fault}` not reported as a message: exit ok={ok}, results written={produced}: {}",
                clean(&strip_ansi(&o))
            )
            .unwrap(),
            Err(e) => writeln!(out, "{id} SKIP {}", clean(&e)).unwrap(),
        }
        return;
    }
    let mut args: Vec<&str> = vec![&mpath, &fpath, "-o", &opath, "-p", popt];
    if use_ext {
        args.push("-e");
        args.push(&cpath);
    }
    let (ok, stdout) = match run_bin("hctl-model-checker", &args, None) {
        Ok(x) => x,
        Err(e) => {
            std::fs::remove_dir_all(&dir).ok();
            writeln!(out, "{id} SKIP {}", clean(&e)).unwrap();
            return;
        }
    };
    let stdout = strip_ansi(&stdout);
    if !ok {
        problems.push(format!("binary exited abnormally: {}", clean(&stdout)));
    }
    let fs: Vec<&str> = formulas.iter().map(|s| s.as_str()).collect();
    let lib = if use_ext {
        model_check_multiple_extended_formulae_dirty(fs.clone(), &graph, &context)
    } else {
        model_check_multiple_formulae_dirty(fs.clone(), &graph)
    };
    match lib {
        Err(e) => {
            // invalid formulae / missing context must be reported as a message, no archive
            if !ok || std::path::Path::new(&opath).exists() {
                problems.push(format!("library rejects the input ({}), binary: ok={ok}", clean(&e)));
            }
            let _ = parse_error;
        }
        Ok(results) => {
            // archive
            match load_bdd_bundle(&opath, graph.symbolic_context()) {
                Err(e) => problems.push(format!("result archive unreadable: {}", clean(&e))),
                Ok(loaded) => {
                    if loaded.len() != results.len() {
                        problems.push(format!("{} results archived, {} formulae", loaded.len(), results.len()));
                    }
                    for (i, r) in results.iter().enumerate() {
                        match loaded.get(&format!("formula-{i}")) {
                            None => problems.push(format!("formula-{i} missing in the archive")),
                            Some(s) => {
                                if s.as_bdd() != r.as_bdd() {
                                    problems.push(format!("archived set formula-{i} differs from the library result"));
                                }
                            }
                        }
                    }
                }
            }
            // printed counts
            if popt != "no-print" {
                let mut blocks: Vec<(String, Vec<String>)> = Vec::new();
                let lines: Vec<&str> = stdout.lines().collect();
                let mut i = 0;
                while i < lines.len() {
                    if let Some(f) = lines[i].strip_prefix("Formula: ") {
                        let mut body = Vec::new();
                        let mut j = i + 1;
                        while j < lines.len() && !lines[j].starts_with("Formula: ") && !lines[j].starts_with("Evaluating formula") && !lines[j].starts_with("Total computation") {
                            body.push(lines[j].to_string());
                            j += 1;
                        }
                        blocks.push((f.to_string(), body));
                        i = j;
                    } else {
                        i += 1;
                    }
                }
                if blocks.len() != results.len() {
                    problems.push(format!("{} result blocks printed for {} formulae", blocks.len(), results.len()));
                } else {
                    for (i, (f, body)) in blocks.iter().enumerate() {
                        if *f != formulas[i] {
                            problems.push(format!("block {i} is for formula {:?}, expected {:?}", f, formulas[i]));
                        }
                        let san = biodivine_hctl_model_checker::postprocessing::sanitizing::sanitize_colored_vertices(&graph, &results[i]);
                        let want = [
                            format!("{} results in total", san.approx_cardinality()),
                            format!("{} unique colors", san.colors().approx_cardinality()),
                            format!("{} unique states", san.vertices().approx_cardinality()),
                        ];
                        for wl in want.iter() {
                            if !body.iter().any(|l| l == wl) {
                                problems.push(format!("formula {i}: expected line {:?}, printed {:?}", wl, body.iter().filter(|l| l.contains("results") || l.contains("unique")).collect::<Vec<_>>()));
                            }
                        }
                        if popt == "exhaustive" {
                            let names: Vec<String> = graph.variables().map(|v| graph.get_variable_name(v)).collect();
                            let mut want_states: Vec<String> = Vec::new();
                            for val in san.vertices().materialize().iter() {
                                use biodivine_lib_param_bn::biodivine_std::bitvector::BitVector;
                                let mut s = String::new();
                                for (j, nm) in names.iter().enumerate() {
                                    if val.get(j) {
                                        s.push_str(&format!("{nm} & "));
                                    } else {
                                        s.push_str(&format!("~{nm} & "));
                                    }
                                }
                                want_states.push(s);
                            }
                            let mut got: Vec<String> = body
                                .iter()
                                .filter(|l| l.contains(" & "))
                                .map(|l| l.to_string())
                                .collect();
                            got.sort();
                            want_states.sort();
                            if got != want_states {
                                problems.push(format!("formula {i}: listed states {:?}, expected {:?}", got, want_states));
                            }
                        }
                    }
                }
            }
        }
    }
    std::fs::remove_dir_all(&dir).ok();
    if problems.is_empty() {
        writeln!(out, "{id} OK {} formulae maxvars={maxv}", formulas.len()).unwrap();
    } else {
        writeln!(out, "{id} ERR {}", clean(&problems.join("; "))).unwrap();
    }
}

/// LOADF id file-text : load_formulae on the text vs the specification of the loader
fn run_loadf(fields: &[&str], out: &mut impl Write) {
    let id = fields[1];
    let text = unhex(fields[2]);
    let path = format!("{}/loadf-{}-{}.txt", work_dir(), std::process::id(), id);
    std::fs::write(&path, &text).unwrap();
    let r = load_formulae(&path);
    std::fs::remove_file(&path).ok();
    match r {
        Ok(v) => writeln!(out, "{id} OK {}", v.iter().map(|x| hex(x)).collect::<Vec<_>>().join(",")).unwrap(),
        Err(e) => writeln!(out, "{id} ERR {}", clean(&e)).unwrap(),
    }
}

/// truth table of an update function BDD over (its own parameter variables, state variables)
fn family_of(ctx: &SymbolicContext, f: &Bdd, states: &[BddVariable]) -> std::collections::BTreeSet<String> {
    let params: Vec<BddVariable> = ctx
        .parameter_variables()
        .iter()
        .filter(|p| f.support_set().contains(p))
        .cloned()
        .collect();
    let total = f.num_vars();
    let mut fam = std::collections::BTreeSet::new();
    for pc in 0..(1usize << params.len()) {
        let mut table = String::new();
        for sc in 0..(1usize << states.len()) {
            let mut val = BddValuation::all_false(total);
            for (j, p) in params.iter().enumerate() {
                val.set_value(*p, (pc >> j) & 1 == 1);
            }
            for (j, s) in states.iter().enumerate() {
                val.set_value(*s, (sc >> (states.len() - 1 - j)) & 1 == 1);
            }
            table.push(if f.eval_in(&val) { '1' } else { '0' });
        }
        fam.insert(table);
    }
    fam
}

/// CONV id aeon-text : run the converter, reload its output as bnet, compare function families
fn run_conv(fields: &[&str], out: &mut impl Write) {
    let id = fields[1];
    let text = unhex(fields[2]);
    let bn = match BooleanNetwork::try_from(text.as_str()) {
        Ok(b) => b,
        Err(e) => {
            writeln!(out, "{id} SKIP network:{}", clean(&e)).unwrap();
            return;
        }
    };
    let (ok, stdout) = match run_bin("convert-aeon-to-bnet", &[], Some(&text)) {
        Ok(x) => x,
        Err(e) => {
            writeln!(out, "{id} SKIP {}", clean(&e)).unwrap();
            return;
        }
    };
    if !ok {
        writeln!(out, "{id} ERR converter failed: {}", clean(&stdout)).unwrap();
        return;
    }
    let bn2 = match BooleanNetwork::try_from_bnet(stdout.as_str()) {
        Ok(b) => b,
        Err(e) => {
            writeln!(out, "{id} ERR output does not load as bnet: {} // {}", clean(&e), clean(&stdout)).unwrap();
            return;
        }
    };
    let ctx1 = SymbolicContext::new(&bn).unwrap();
    let ctx2 = SymbolicContext::new(&bn2).unwrap();
    let names1: Vec<String> = bn.variables().map(|v| bn.get_variable_name(v).clone()).collect();
    let mut problems: Vec<String> = Vec::new();
    // every original variable is a variable of the output, except inputs that nothing reads
    // (the bnet format has no way to mention them)
    let mut absent: Vec<String> = Vec::new();
    for v in bn.variables() {
        let nm = bn.get_variable_name(v);
        if bn2.as_graph().find_variable(nm).is_none() {
            let has_rule = !bn.regulators(v).is_empty() || bn.get_update_function(v).is_some();
            let read_by_someone = bn.variables().any(|t| {
                let f = if let Some(f) = bn.get_update_function(t) {
                    ctx1.mk_fn_update_true(f)
                } else {
                    ctx1.mk_implicit_function_is_true(t, &bn.regulators(t))
                };
                f.support_set().contains(&ctx1.get_state_variable(v))
            });
            if has_rule || read_by_someone {
                problems.push(format!("variable {nm} missing in the output"));
            } else {
                absent.push(nm.clone());
            }
        }
    }
    if !problems.is_empty() {
        writeln!(out, "{id} ERR {}", clean(&problems.join("; "))).unwrap();
        return;
    }
    let names1: Vec<String> = names1.into_iter().filter(|n| !absent.contains(n)).collect();
    let fresh: Vec<String> = bn2
        .variables()
        .map(|v| bn2.get_variable_name(v).clone())
        .filter(|nm| !names1.contains(nm))
        .collect();
    for v in bn.variables() {
        let nm = bn.get_variable_name(v);
        if absent.contains(nm) {
            continue;
        }
        let v2 = bn2.as_graph().find_variable(nm).unwrap();
        let has_rule = !bn.regulators(v).is_empty() || bn.get_update_function(v).is_some();
        let f2 = bn2.get_update_function(v2);
        if !has_rule || (bn.regulators(v).is_empty() && bn.get_update_function(v).is_some()) {
            // zero-regulator variables are skipped by the converter: kept as they are
            if !has_rule && f2.is_some() {
                problems.push(format!("{nm} had neither regulators nor a function but got a rule"));
            }
            if !has_rule {
                continue;
            }
        }
        // family of the input function: all instantiations of its parameters
        let f1 = if let Some(f) = bn.get_update_function(v) {
            ctx1.mk_fn_update_true(f)
        } else {
            ctx1.mk_implicit_function_is_true(v, &bn.regulators(v))
        };
        let present1: Vec<BddVariable> = names1
            .iter()
            .map(|n| ctx1.get_state_variable(bn.as_graph().find_variable(n).unwrap()))
            .collect();
        let fam1 = family_of(&ctx1, &f1, &present1);
        // family of the output function: all valuations of the fresh inputs, as tables over
        // the original variables (in the original order)
        let f2 = match f2 {
            Some(f) => ctx2.mk_fn_update_true(f),
            None => {
                problems.push(format!("{nm} has no update function in the output"));
                continue;
            }
        };
        if !f2.support_set().iter().all(|x| ctx2.state_variables().contains(x)) {
            problems.push(format!("{nm}: output function still has parameters"));
            continue;
        }
        let orig2: Vec<BddVariable> = names1
            .iter()
            .map(|n| ctx2.get_state_variable(bn2.as_graph().find_variable(n).unwrap()))
            .collect();
        let fresh2: Vec<BddVariable> = fresh
            .iter()
            .map(|n| ctx2.get_state_variable(bn2.as_graph().find_variable(n).unwrap()))
            .filter(|x| f2.support_set().contains(x))
            .collect();
        let total = f2.num_vars();
        let mut fam2 = std::collections::BTreeSet::new();
        for fc in 0..(1usize << fresh2.len()) {
            let mut table = String::new();
            for sc in 0..(1usize << orig2.len()) {
                let mut val = BddValuation::all_false(total);
                for (j, p) in fresh2.iter().enumerate() {
                    val.set_value(*p, (fc >> j) & 1 == 1);
                }
                for (j, s) in orig2.iter().enumerate() {
                    val.set_value(*s, (sc >> (orig2.len() - 1 - j)) & 1 == 1);
                }
                table.push(if f2.eval_in(&val) { '1' } else { '0' });
            }
            fam2.insert(table);
        }
        if fam1 != fam2 {
            problems.push(format!(
                "{nm}: input function has {} instantiations, output ranges over {} functions; only-in-input {:?} only-in-output {:?}",
                fam1.len(),
                fam2.len(),
                fam1.difference(&fam2).take(2).collect::<Vec<_>>(),
                fam2.difference(&fam1).take(2).collect::<Vec<_>>()
            ));
        }
    }
    // fresh variables must be free inputs; no other targets
    for nm in &fresh {
        let v2 = bn2.as_graph().find_variable(nm).unwrap();
        if bn2.get_update_function(v2).is_some() && !bn2.regulators(v2).is_empty() {
            problems.push(format!("fresh variable {nm} is not a free input"));
        }
    }
    if problems.is_empty() {
        writeln!(out, "{id} OK {} variables, {} fresh inputs", names1.len(), fresh.len()).unwrap();
    } else {
        writeln!(out, "{id} ERR {}", clean(&problems.join("; "))).unwrap();
    }
}

/// EQV id k net ctx(label=f<formula>,...) formulas
/// Laws on networks of any size, through the API only: the formulae come in consecutive pairs
/// (2i, 2i+1) whose raw results must be equal as BDDs; context sets are results of plain
/// formulae.  No enumeration of valuations is involved.
fn run_eqv(fields: &[&str], out: &mut impl Write) {
    let id = fields[1];
    let k: u16 = fields[2].parse().unwrap();
    let bn = match load_network(fields[3]) {
        Ok(b) => b,
        Err(e) => {
            writeln!(out, "{id} SKIP network:{}", clean(&e)).unwrap();
            return;
        }
    };
    let graph = match get_extended_symbolic_graph(&bn, k) {
        Ok(g) => g,
        Err(e) => {
            writeln!(out, "{id} SKIP graph:{}", clean(&e)).unwrap();
            return;
        }
    };
    let mut context: HashMap<String, GraphColoredVertices> = HashMap::new();
    for item in split_list(fields[4]) {
        if item == "-" {
            continue;
        }
        let (label, spec) = item.split_once('=').unwrap();
        let set = match &spec[..1] {
            "f" => match model_check_formula_dirty(unhex(&spec[1..]).as_str(), &graph) {
                Ok(s) => s,
                Err(e) => {
                    writeln!(out, "{id} SKIP context:{}", clean(&e)).unwrap();
                    return;
                }
            },
            "e" => graph.mk_empty_colored_vertices(),
            _ => graph.mk_unit_colored_vertices(),
        };
        context.insert(unhex(label), set);
    }
    let formulas: Vec<String> = split_list(fields[5]).iter().map(|h| unhex(h)).collect();
    let mut results = Vec::new();
    for f in &formulas {
        match model_check_extended_formula_dirty(f.as_str(), &graph, &context) {
            Ok(r) => results.push(r),
            Err(e) => {
                writeln!(out, "{id} ERR formula {} rejected: {}", hex(f), clean(&e)).unwrap();
                return;
            }
        }
    }
    let mut bad = Vec::new();
    for i in 0..(results.len() / 2) {
        if results[2 * i].as_bdd() != results[2 * i + 1].as_bdd() {
            bad.push(format!(
                "{} <> {} ({} vs {} pairs)",
                formulas[2 * i],
                formulas[2 * i + 1],
                results[2 * i].approx_cardinality(),
                results[2 * i + 1].approx_cardinality()
            ));
        }
        if !results[2 * i].is_subset(graph.unit_colored_vertices()) {
            bad.push(format!("{} leaves the unit set", formulas[2 * i]));
        }
        // the raw result of a closed formula does not depend on the spare copies
        let extras = graph.symbolic_context().all_extra_state_variables().clone();
        for r in [&results[2 * i], &results[2 * i + 1]] {
            let support = r.as_bdd().support_set();
            if extras.iter().any(|v| support.contains(v)) {
                bad.push(format!("{} depends on a spare variable", formulas[2 * i]));
                break;
            }
        }
    }
    if bad.is_empty() {
        writeln!(out, "{id} OK {} pairs on {} variables", results.len() / 2, graph.num_vars()).unwrap();
    } else {
        writeln!(out, "{id} ERR {}", clean(&bad.join("; "))).unwrap();
    }
}

/// SLICEB id k net formulas
/// C20 on networks of any size, by BDD operations only: for a few valid colours (the one the
/// library picks, the "most positive" and the "most negative" one) the states that the result on
/// the parametrised graph associates with the colour must equal the result computed on
/// pick_witness(colour).  Both sides are sanitised results; the slice is moved into the encoding
/// of the instantiated network with transfer_vertices_from.
fn run_sliceb(fields: &[&str], out: &mut impl Write) {
    let id = fields[1];
    let k: u16 = fields[2].parse().unwrap();
    let bn = match load_network(fields[3]) {
        Ok(b) => b,
        Err(e) => {
            writeln!(out, "{id} SKIP network:{}", clean(&e)).unwrap();
            return;
        }
    };
    let graph = match get_extended_symbolic_graph(&bn, k) {
        Ok(g) => g,
        Err(e) => {
            writeln!(out, "{id} SKIP graph:{}", clean(&e)).unwrap();
            return;
        }
    };
    let plain = match SymbolicAsyncGraph::new(&bn) {
        Ok(g) => g,
        Err(e) => {
            writeln!(out, "{id} SKIP graph:{}", clean(&e)).unwrap();
            return;
        }
    };
    if plain.unit_colors().is_empty() {
        writeln!(out, "{id} SKIP no-valid-colour").unwrap();
        return;
    }
    let formulas: Vec<String> = split_list(fields[4]).iter().map(|h| unhex(h)).collect();
    // colours, as sets of the canonical (plain) encoding
    let mut colours: Vec<GraphColors> = vec![plain.unit_colors().pick_singleton()];
    for positive in [true, false] {
        let mut b = plain.unit_colors().as_bdd().clone();
        for v in plain.symbolic_context().parameter_variables() {
            let c = b.var_select(*v, positive);
            if !c.is_false() {
                b = c;
            }
        }
        colours.push(GraphColors::new(b, plain.symbolic_context()).pick_singleton());
    }
    let mut results = Vec::new();
    for f in &formulas {
        match model_check_formula(f.as_str(), &graph) {
            Ok(r) => results.push(r),
            Err(e) => {
                writeln!(out, "{id} ERR formula {} rejected: {}", hex(f), clean(&e)).unwrap();
                return;
            }
        }
    }
    let mut bad = Vec::new();
    let mut compared = 0usize;
    for colour in &colours {
        let instance = plain.pick_witness(colour);
        let inst_graph = match get_extended_symbolic_graph(&instance, k) {
            Ok(g) => g,
            Err(e) => {
                bad.push(format!("witness network does not load: {}", clean(&e)));
                continue;
            }
        };
        let inst_plain = SymbolicAsyncGraph::new(&instance).unwrap();
        for (f, r) in formulas.iter().zip(results.iter()) {
            let slice = r.intersect_colors(colour).vertices();
            let slice = match inst_plain.transfer_vertices_from(&slice, &plain) {
                Some(s) => s,
                None => {
                    bad.push(format!("slice of {} cannot be transferred", f));
                    continue;
                }
            };
            match model_check_formula(f.as_str(), &inst_graph) {
                Ok(e) => {
                    compared += 1;
                    if e.vertices().as_bdd() != slice.as_bdd() {
                        bad.push(format!(
                            "{}: the colour's slice has {} states, the instantiated network gives {}",
                            f,
                            slice.approx_cardinality(),
                            e.vertices().approx_cardinality()
                        ));
                    }
                }
                Err(e) => bad.push(format!("{} rejected on the instantiated network: {}", f, clean(&e))),
            }
        }
    }
    if bad.is_empty() {
        writeln!(out, "{id} OK {} slices on {} variables", compared, graph.num_vars()).unwrap();
    } else {
        writeln!(out, "{id} ERR {}", clean(&bad.join("; "))).unwrap();
    }
}

/// UNSAFE id k net formulas
/// C18 on networks of any size: model_check_formula_unsafe_ex against model_check_formula_dirty, by
/// BDD equality, for formulae of the fragment (or on steady-state-free networks).
fn run_unsafe(fields: &[&str], out: &mut impl Write) {
    let id = fields[1];
    let k: u16 = fields[2].parse().unwrap();
    let bn = match load_network(fields[3]) {
        Ok(b) => b,
        Err(e) => {
            writeln!(out, "{id} SKIP network:{}", clean(&e)).unwrap();
            return;
        }
    };
    let graph = match get_extended_symbolic_graph(&bn, k) {
        Ok(g) => g,
        Err(e) => {
            writeln!(out, "{id} SKIP graph:{}", clean(&e)).unwrap();
            return;
        }
    };
    let formulas: Vec<String> = split_list(fields[4]).iter().map(|h| unhex(h)).collect();
    let mut bad = Vec::new();
    for f in &formulas {
        let a = model_check_formula_dirty(f.as_str(), &graph);
        let b = model_check_formula_unsafe_ex(f.as_str(), &graph);
        match (a, b) {
            (Ok(x), Ok(y)) => {
                if x.as_bdd() != y.as_bdd() {
                    bad.push(format!(
                        "{}: standard evaluation has {} pairs, the self-loop-free variant {}",
                        f,
                        x.approx_cardinality(),
                        y.approx_cardinality()
                    ));
                }
            }
            (Err(_), Err(_)) => {}
            (x, y) => bad.push(format!("{}: standard {:?}, self-loop-free {:?}", f, x.is_ok(), y.is_ok())),
        }
    }
    if bad.is_empty() {
        writeln!(out, "{id} OK {} formulae on {} variables", formulas.len(), graph.num_vars()).unwrap();
    } else {
        writeln!(out, "{id} ERR {}", clean(&bad.join("; "))).unwrap();
    }
}

/// LABEL id label : write one set under the label, reload: which label comes back?
fn run_label(fields: &[&str], out: &mut impl Write) {
    let id = fields[1];
    let label = unhex(fields[2]);
    let bn = BooleanNetwork::try_from("a -> a\n").unwrap();
    let graph = get_extended_symbolic_graph(&bn, 0).unwrap();
    let mut sets = HashMap::new();
    sets.insert(label.clone(), graph.mk_unit_colored_vertices());
    let path = format!("{}/label-{}-{}.zip", work_dir(), std::process::id(), id);
    if let Err(e) = build_result_archive(sets, &path, bn.to_string().as_str(), vec![]) {
        writeln!(out, "{id} SKIP write:{}", clean(&e.to_string())).unwrap();
        return;
    }
    let r = load_bdd_bundle(&path, graph.symbolic_context());
    std::fs::remove_file(&path).ok();
    match r {
        Ok(m) => {
            if m.is_empty() {
                writeln!(out, "{id} OK skipped").unwrap();
            } else {
                let mut ls: Vec<String> = m.keys().map(|k| hex(k)).collect();
                ls.sort();
                writeln!(out, "{id} OK {}", ls.join(",")).unwrap();
            }
        }
        Err(_) => writeln!(out, "{id} ERR StripSuffix").unwrap(),
    }
}

fn fn_sexpr(bn: &BooleanNetwork, f: &biodivine_lib_param_bn::FnUpdate) -> String {
    use biodivine_lib_param_bn::{BinaryOp as B, FnUpdate as F};
    match f {
        F::Const(b) => format!("(c {})", if *b { 1 } else { 0 }),
        F::Var(v) => format!("(v {})", v.to_index()),
        F::Not(g) => format!("(n {})", fn_sexpr(bn, g)),
        F::Binary(op, l, r) => {
            let o = match op {
                B::And => "and",
                B::Or => "or",
                B::Xor => "xor",
                B::Iff => "iff",
                B::Imp => "imp",
            };
            format!("(b {o} {} {})", fn_sexpr(bn, l), fn_sexpr(bn, r))
        }
        F::Param(id, args) => {
            let name = bn.get_parameter(*id).get_name().clone();
            let a: Vec<String> = args.iter().map(|x| fn_sexpr(bn, x)).collect();
            if a.is_empty() {
                format!("(p {})", hex(&name))
            } else {
                format!("(p {} {})", hex(&name), a.join(" "))
            }
        }
    }
}

/// CONVM id aeon-text : the converter's output function of every variable, as a truth table
/// over (original variables, its fresh constants sorted by name) -- compared with the
/// extracted Coq model of explode/flatten run on the same input functions.
fn run_convm(fields: &[&str], cases: &mut impl Write, out: &mut impl Write) {
    let id = fields[1];
    let text = unhex(fields[2]);
    let bn = match BooleanNetwork::try_from(text.as_str()) {
        Ok(b) => b,
        Err(e) => {
            writeln!(out, "{id} SKIP network:{}", clean(&e)).unwrap();
            return;
        }
    };
    let (ok, stdout) = match run_bin("convert-aeon-to-bnet", &[], Some(&text)) {
        Ok(x) => x,
        Err(e) => {
            writeln!(out, "{id} SKIP {}", clean(&e)).unwrap();
            return;
        }
    };
    if !ok {
        writeln!(out, "{id} ERR converter failed: {}", clean(&stdout)).unwrap();
        return;
    }
    let bn2 = match BooleanNetwork::try_from_bnet(stdout.as_str()) {
        Ok(b) => b,
        Err(e) => {
            writeln!(out, "{id} ERR output does not load as bnet: {}", clean(&e)).unwrap();
            return;
        }
    };
    let ctx2 = SymbolicContext::new(&bn2).unwrap();
    let names1: Vec<String> = bn.variables().map(|v| bn.get_variable_name(v).clone()).collect();
    let present: Vec<usize> = (0..names1.len())
        .filter(|i| bn2.as_graph().find_variable(&names1[*i]).is_some())
        .collect();
    // case line for the model
    let mut items: Vec<String> = Vec::new();
    for v in bn.variables() {
        let regs: Vec<String> = bn.regulators(v).iter().map(|r| r.to_index().to_string()).collect();
        let fx = match bn.get_update_function(v) {
            Some(f) => fn_sexpr(&bn, f),
            None => "-".to_string(),
        };
        items.push(format!(
            "{}|{}|{}",
            v.to_index(),
            if regs.is_empty() { "-".to_string() } else { regs.join(";") },
            fx
        ));
    }
    writeln!(
        cases,
        "CONVM\t{id}\t{}\t{}\t{}",
        names1.iter().map(|n| hex(n)).collect::<Vec<_>>().join(","),
        present.iter().map(|i| i.to_string()).collect::<Vec<_>>().join(","),
        items.join(",")
    )
    .unwrap();
    // implementation side
    let mut res: Vec<String> = Vec::new();
    for v in bn.variables() {
        let nm = bn.get_variable_name(v);
        let has_fn = !bn.regulators(v).is_empty() || bn.get_update_function(v).is_some();
        if !has_fn {
            continue;
        }
        let v2 = match bn2.as_graph().find_variable(nm) {
            Some(x) => x,
            None => {
                res.push(format!("{}:MISSING", hex(nm)));
                continue;
            }
        };
        let f2 = match bn2.get_update_function(v2) {
            Some(f) => ctx2.mk_fn_update_true(f),
            None => {
                res.push(format!("{}:NOFN", hex(nm)));
                continue;
            }
        };
        let mut fresh: Vec<String> = bn2
            .variables()
            .map(|x| bn2.get_variable_name(x).clone())
            .filter(|n| !names1.contains(n))
            .filter(|n| {
                f2.support_set()
                    .contains(&ctx2.get_state_variable(bn2.as_graph().find_variable(n).unwrap()))
            })
            .collect();
        fresh.sort();
        let mut order: Vec<BddVariable> = present
            .iter()
            .map(|i| ctx2.get_state_variable(bn2.as_graph().find_variable(&names1[*i]).unwrap()))
            .collect();
        for n in &fresh {
            order.push(ctx2.get_state_variable(bn2.as_graph().find_variable(n).unwrap()));
        }
        res.push(format!(
            "{}:{}:{}",
            hex(nm),
            fresh.iter().map(|n| hex(n)).collect::<Vec<_>>().join(";"),
            bits_of(&f2, &order)
        ));
    }
    writeln!(out, "{id} OK {}", res.join(",")).unwrap();
}

/// LIBR id net s-formula t-formula : EF / AG / EU of the tool vs backward reachability, the
/// largest forward-closed subset and constrained backward reachability of the graph library.
fn run_libr(fields: &[&str], out: &mut impl Write) {
    use biodivine_lib_param_bn::symbolic_async_graph::reachability::Reachability;
    let id = fields[1];
    let bn = match load_network(fields[2]) {
        Ok(b) => b,
        Err(e) => {
            writeln!(out, "{id} SKIP network:{}", clean(&e)).unwrap();
            return;
        }
    };
    let graph = match get_extended_symbolic_graph(&bn, 0) {
        Ok(g) => g,
        Err(e) => {
            writeln!(out, "{id} SKIP graph:{}", clean(&e)).unwrap();
            return;
        }
    };
    let s = match model_check_formula_dirty(unhex(fields[3]).as_str(), &graph) {
        Ok(x) => x,
        Err(e) => {
            writeln!(out, "{id} SKIP context:{}", clean(&e)).unwrap();
            return;
        }
    };
    let t = match model_check_formula_dirty(unhex(fields[4]).as_str(), &graph) {
        Ok(x) => x,
        Err(e) => {
            writeln!(out, "{id} SKIP context:{}", clean(&e)).unwrap();
            return;
        }
    };
    let mut ctx: HashMap<String, GraphColoredVertices> = HashMap::new();
    ctx.insert("s".to_string(), s.clone());
    ctx.insert("t".to_string(), t.clone());
    let run = |f: &str| model_check_extended_formula_dirty(f, &graph, &ctx);
    let mut bad: Vec<String> = Vec::new();
    match run("EF %s%") {
        Ok(r) => {
            if r.as_bdd() != graph.reach_backward(&s).as_bdd() {
                bad.push("EF s differs from reach_backward(s)".into());
            }
            if r.as_bdd() != Reachability::reach_bwd(&graph, &s).as_bdd() {
                bad.push("EF s differs from Reachability::reach_bwd(s)".into());
            }
        }
        Err(e) => bad.push(clean(&e)),
    }
    match run("AG %s%") {
        Ok(r) => {
            if r.as_bdd() != graph.trap_forward(&s).as_bdd() {
                bad.push("AG s differs from trap_forward(s)".into());
            }
        }
        Err(e) => bad.push(clean(&e)),
    }
    match run("%s% EU %t%") {
        Ok(r) => {
            // constrained backward reachability: inside s | t, towards t
            let within = graph.restrict(&s.union(&t));
            if r.as_bdd() != within.reach_backward(&t).as_bdd() {
                bad.push("s EU t differs from reach_backward(t) constrained to s | t".into());
            }
        }
        Err(e) => bad.push(clean(&e)),
    }
    if bad.is_empty() {
        writeln!(out, "{id} OK {} variables", graph.num_vars()).unwrap();
    } else {
        writeln!(out, "{id} ERR {}", clean(&bad.join("; "))).unwrap();
    }
}
