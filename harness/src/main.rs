//! Implementation side of the correspondence check.
//!
//! Reads a request file (tab separated, one case per line), runs the public API of
//! `biodivine-hctl-model-checker` (built from /repo's working tree) under `catch_unwind`, and writes
//!   <out>.cases  -- the case lines for the extracted Coq model (network tables included)
//!   <out>.impl   -- one answer line per case, same syntax as the model driver prints.
//! Strings travel as dot-separated hexadecimal code points ("-" = empty string).

use biodivine_hctl_model_checker::evaluation::algorithm::{compute_steady_states, eval_node};
use biodivine_hctl_model_checker::evaluation::eval_context::EvalContext;
use biodivine_hctl_model_checker::evaluation::mark_duplicates::mark_duplicates_canonized_multiple;
use biodivine_hctl_model_checker::mc_utils::{
    check_hctl_var_support, collect_unique_hctl_vars, get_extended_symbolic_graph,
};
use biodivine_hctl_model_checker::model_checking::*;
use biodivine_hctl_model_checker::preprocessing::hctl_tree::{HctlTreeNode, NodeType};
use biodivine_hctl_model_checker::preprocessing::operator_enums::*;
use biodivine_hctl_model_checker::preprocessing::parser::*;
use biodivine_hctl_model_checker::preprocessing::tokenizer::*;
use biodivine_hctl_model_checker::preprocessing::utils::{
    validate_and_divide_wild_cards, validate_props_and_rename_vars,
};
use biodivine_lib_bdd::{Bdd, BddPartialValuation, BddValuation, BddVariable};
use biodivine_lib_param_bn::biodivine_std::traits::Set;
use biodivine_lib_param_bn::symbolic_async_graph::{
    GraphColoredVertices, SymbolicAsyncGraph, SymbolicContext,
};
use biodivine_lib_param_bn::{BooleanNetwork, RegulatoryGraph};
use std::collections::HashMap;
use std::fmt::Write as FmtWrite;
use std::io::{BufRead, BufWriter, Write};
use std::panic::{catch_unwind, AssertUnwindSafe};

mod shell;

pub fn hex(s: &str) -> String {
    if s.is_empty() {
        return "-".to_string();
    }
    s.chars()
        .map(|c| format!("{:x}", c as u32))
        .collect::<Vec<_>>()
        .join(".")
}

pub fn unhex(h: &str) -> String {
    if h == "-" || h.is_empty() {
        return String::new();
    }
    h.split('.')
        .map(|x| char::from_u32(u32::from_str_radix(x, 16).unwrap()).unwrap())
        .collect()
}

fn split_list(s: &str) -> Vec<&str> {
    if s.is_empty() {
        Vec::new()
    } else {
        s.split(',').collect()
    }
}

/// Deterministic PRNG (xorshift64*), every random choice of the harness derives from a seed
/// given in the request.
pub struct Rng(u64);
impl Rng {
    pub fn new(seed: u64) -> Rng {
        Rng(seed.wrapping_mul(0x9E3779B97F4A7C15) | 1)
    }
    pub fn next(&mut self) -> u64 {
        let mut x = self.0;
        x ^= x >> 12;
        x ^= x << 25;
        x ^= x >> 27;
        self.0 = x;
        x.wrapping_mul(0x2545F4914F6CDD1D)
    }
    pub fn below(&mut self, n: u64) -> u64 {
        (self.next() >> 11) % n
    }
}

pub fn load_network(spec: &str) -> Result<BooleanNetwork, String> {
    let (fmt, body) = spec.split_at(2);
    let text = unhex(body);
    match fmt {
        "A:" => BooleanNetwork::try_from(text.as_str()),
        "B:" => BooleanNetwork::try_from_bnet(text.as_str()),
        "S:" => BooleanNetwork::try_from_sbml(text.as_str()).map(|x| x.0),
        _ => Err(format!("unknown network format {fmt}")),
    }
}

/// The variable order of the model: parameter bits, then per network variable its state bit
/// followed by its spare copies.
pub fn model_order(ctx: &SymbolicContext, with_extras: bool) -> Vec<BddVariable> {
    let mut order: Vec<BddVariable> = ctx.parameter_variables().clone();
    for v in ctx.network_variables() {
        order.push(ctx.get_state_variable(v));
        if with_extras {
            for e in ctx.extra_state_variables(v) {
                order.push(*e);
            }
        }
    }
    order
}

/// Truth table of a BDD as a 0/1 string over `order` (first variable most significant).
/// Variables of the BDD's universe that are not in `order` are set to false; `support_ok`
/// reports whether the BDD depends only on variables of `order`.
pub fn bits_of(bdd: &Bdd, order: &[BddVariable]) -> String {
    let total = bdd.num_vars() as usize;
    let m = order.len();
    let mut out = String::with_capacity(1 << m);
    let mut val = BddValuation::all_false(total as u16);
    for idx in 0..(1usize << m) {
        for (j, var) in order.iter().enumerate() {
            val.set_value(*var, (idx >> (m - 1 - j)) & 1 == 1);
        }
        out.push(if bdd.eval_in(&val) { '1' } else { '0' });
    }
    out
}

pub fn depends_only_on(bdd: &Bdd, order: &[BddVariable]) -> bool {
    bdd.support_set().iter().all(|v| order.contains(v))
}

/// Build a BDD (in the universe of `ctx`) from a truth table over `order`.
pub fn bdd_of_bits(ctx: &SymbolicContext, order: &[BddVariable], bits: &[bool]) -> Bdd {
    fn go(
        ctx: &SymbolicContext,
        order: &[BddVariable],
        bits: &[bool],
        partial: &mut Vec<(BddVariable, bool)>,
    ) -> Bdd {
        if bits.iter().all(|b| !*b) {
            return ctx.mk_constant(false);
        }
        if bits.iter().all(|b| *b) {
            let pv = BddPartialValuation::from_values(partial);
            return ctx.bdd_variable_set().mk_conjunctive_clause(&pv);
        }
        let half = bits.len() / 2;
        let var = order[0];
        partial.push((var, false));
        let lo = go(ctx, &order[1..], &bits[..half], partial);
        partial.pop();
        partial.push((var, true));
        let hi = go(ctx, &order[1..], &bits[half..], partial);
        partial.pop();
        lo.or(&hi)
    }
    go(ctx, order, bits, &mut Vec::new())
}

pub struct World {
    pub bn: BooleanNetwork,
    pub graph: SymbolicAsyncGraph,
    pub k: usize,
    pub order_pn: Vec<BddVariable>,
    pub order_full: Vec<BddVariable>,
}

pub fn build_world(net: &str, k: usize) -> Result<World, String> {
    let bn = load_network(net)?;
    let graph = get_extended_symbolic_graph(&bn, k as u16)?;
    let order_pn = model_order(graph.symbolic_context(), false);
    let order_full = model_order(graph.symbolic_context(), true);
    Ok(World {
        bn,
        graph,
        k,
        order_pn,
        order_full,
    })
}

/// A graph whose symbolic context does NOT give every network variable the same number of spare
/// copies (built by hand with SymbolicContext::with_extra_state_variables, as the API allows):
/// `poor_first` = the first variable gets exactly k copies and every other one k + 2; otherwise the
/// last variable gets k and the others k + 2.  The number of usable spare sets is k.
pub fn build_world_nonuniform(net: &str, k: usize, poor_first: bool) -> Result<World, String> {
    let bn = load_network(net)?;
    let vars: Vec<_> = bn.variables().collect();
    let mut extra = HashMap::new();
    for (i, v) in vars.iter().enumerate() {
        let poor = if poor_first { i == 0 } else { i + 1 == vars.len() };
        extra.insert(*v, if poor { k as u16 } else { (k + 2) as u16 });
    }
    let ctx = SymbolicContext::with_extra_state_variables(&bn, &extra)?;
    let unit = ctx.mk_constant(true);
    let graph = SymbolicAsyncGraph::with_custom_context(&bn, ctx, unit)?;
    let order_pn = model_order(graph.symbolic_context(), false);
    let order_full = model_order(graph.symbolic_context(), true);
    Ok(World {
        bn,
        graph,
        k,
        order_pn,
        order_full,
    })
}

impl World {
    pub fn p(&self) -> usize {
        self.graph.symbolic_context().num_parameter_variables()
    }
    pub fn n(&self) -> usize {
        self.graph.num_vars()
    }
    pub fn names(&self) -> Vec<String> {
        self.graph
            .variables()
            .map(|v| self.graph.get_variable_name(v))
            .collect()
    }
    /// description of the network for the model: names, update tables, unit (all over pn)
    pub fn describe(&self) -> (String, String, String) {
        let names = self
            .names()
            .iter()
            .map(|x| hex(x))
            .collect::<Vec<_>>()
            .join(",");
        let upd = self
            .graph
            .variables()
            .map(|v| bits_of(self.graph.get_symbolic_fn_update(v), &self.order_pn))
            .collect::<Vec<_>>()
            .join(",");
        let unit = bits_of(self.graph.unit_colored_vertices().as_bdd(), &self.order_pn);
        (names, upd, unit)
    }
    pub fn set_of_bits(&self, bits: &[bool]) -> GraphColoredVertices {
        let bdd = bdd_of_bits(self.graph.symbolic_context(), &self.order_pn, bits);
        GraphColoredVertices::new(bdd, self.graph.symbolic_context())
    }
}

/// Context-set specifications (see DESIGN.md 5.2).  Returns the set and, for the model, its
/// truth table over pn (None when the set is malformed: depends on spare variables).
pub fn make_context_set_for_shell(w: &World, spec: &str) -> Result<GraphColoredVertices, String> {
    make_context_set(w, spec).map(|x| x.0)
}

fn make_context_set(w: &World, spec: &str) -> Result<(GraphColoredVertices, Option<String>), String> {
    let unit_bits: Vec<bool> = bits_of(w.graph.unit_colored_vertices().as_bdd(), &w.order_pn)
        .chars()
        .map(|c| c == '1')
        .collect();
    let p = w.p();
    let n = w.n();
    let kind = &spec[..1];
    let arg = &spec[1..];
    let parse_rnd = |a: &str| -> (u64, u64, u64) {
        // seed.num.den
        let parts: Vec<&str> = a.split('.').collect();
        (
            parts[0].parse().unwrap(),
            parts.get(1).map(|x| x.parse().unwrap()).unwrap_or(1),
            parts.get(2).map(|x| x.parse().unwrap()).unwrap_or(2),
        )
    };
    let bits: Vec<bool> = match kind {
        "e" => vec![false; 1 << (p + n)],
        "u" => unit_bits.clone(),
        // random subset of the unit (colour dependent)
        "r" => {
            let (seed, num, den) = parse_rnd(arg);
            let mut rng = Rng::new(seed);
            unit_bits
                .iter()
                .map(|u| {
                    let x = rng.below(den) < num;
                    *u && x
                })
                .collect()
        }
        // random set, not restricted to the unit (malformed stream)
        "R" => {
            let (seed, num, den) = parse_rnd(arg);
            let mut rng = Rng::new(seed);
            (0..(1usize << (p + n))).map(|_| rng.below(den) < num).collect()
        }
        // colour-independent random set of states (inside the unit)
        "c" => {
            let (seed, num, den) = parse_rnd(arg);
            let mut rng = Rng::new(seed);
            let states: Vec<bool> = (0..(1usize << n)).map(|_| rng.below(den) < num).collect();
            (0..(1usize << (p + n)))
                .map(|i| unit_bits[i] && states[i & ((1 << n) - 1)])
                .collect()
        }
        // random set of colours x all states: empty for some colours only
        "k" => {
            let (seed, num, den) = parse_rnd(arg);
            let mut rng = Rng::new(seed);
            let cols: Vec<bool> = (0..(1usize << p)).map(|_| rng.below(den) < num).collect();
            (0..(1usize << (p + n)))
                .map(|i| unit_bits[i] && cols[i >> n])
                .collect()
        }
        // the complementary set of colours of "k" with the same seed (x all states)
        "K" => {
            let (seed, num, den) = parse_rnd(arg);
            let mut rng = Rng::new(seed);
            let cols: Vec<bool> = (0..(1usize << p)).map(|_| rng.below(den) < num).collect();
            (0..(1usize << (p + n)))
                .map(|i| unit_bits[i] && !cols[i >> n])
                .collect()
        }
        // literal bits over pn
        "b" => arg.chars().map(|c| c == '1').collect(),
        // result of a closed plain formula (raw result of the implementation itself)
        "f" => {
            let f = unhex(arg);
            let set = model_check_formula_dirty(f.as_str(), &w.graph)?;
            let ok = depends_only_on(set.as_bdd(), &w.order_pn);
            let b = bits_of(set.as_bdd(), &w.order_pn);
            return Ok((set, if ok { Some(b) } else { None }));
        }
        // malformed: a set that depends on a spare variable
        "X" => {
            let ctx = w.graph.symbolic_context();
            let v = w.graph.variables().next().unwrap();
            if w.k == 0 {
                return Err("no spare variable".to_string());
            }
            let bdd = ctx.mk_extra_state_variable_is_true(v, 0);
            let set = GraphColoredVertices::new(bdd, ctx).intersect(w.graph.unit_colored_vertices());
            return Ok((set, None));
        }
        _ => return Err(format!("unknown context kind {kind}")),
    };
    if bits.len() != 1 << (p + n) {
        return Err("bad literal length".to_string());
    }
    let set = w.set_of_bits(&bits);
    let s: String = bits.iter().map(|b| if *b { '1' } else { '0' }).collect();
    Ok((set, Some(s)))
}

// ---------- printers (must agree with ocaml/driver.ml) ----------

fn atom_s(a: &Atomic) -> String {
    match a {
        Atomic::Prop(s) => format!("P:{}", hex(s)),
        Atomic::Var(s) => format!("V:{}", hex(s)),
        Atomic::True => "1".to_string(),
        Atomic::False => "0".to_string(),
        Atomic::WildCardProp(s) => format!("W:{}", hex(s)),
    }
}

fn opt_s(d: &Option<String>) -> String {
    match d {
        None => "_".to_string(),
        Some(s) => hex(s),
    }
}

pub fn tree_s(t: &HctlTreeNode) -> String {
    let hd = format!("{} {}", hex(&t.formula_str), t.height);
    match &t.node_type {
        NodeType::Terminal(a) => format!("(T {} {})", atom_s(a), hd),
        NodeType::Unary(o, c) => format!("(U {:?} {} {})", o, hd, tree_s(c)),
        NodeType::Binary(o, l, r) => format!("(B {:?} {} {} {})", o, hd, tree_s(l), tree_s(r)),
        NodeType::Hybrid(o, x, d, c) => {
            format!("(H {:?} {} {} {} {})", o, hex(x), opt_s(d), hd, tree_s(c))
        }
    }
}

fn token_s(t: &HctlToken) -> String {
    match t {
        HctlToken::Unary(o) => format!("u{:?}", o),
        HctlToken::Binary(o) => format!("b{:?}", o),
        HctlToken::Hybrid(o, x, d) => format!("h{:?}:{}:{}", o, hex(x), opt_s(d)),
        HctlToken::Atom(a) => format!("a{}", atom_s(a)),
        HctlToken::Tokens(ts) => format!(
            "({})",
            ts.iter().map(token_s).collect::<Vec<_>>().join(" ")
        ),
    }
}

fn panic_msg(e: Box<dyn std::any::Any + Send>) -> String {
    let m = if let Some(s) = e.downcast_ref::<&str>() {
        s.to_string()
    } else if let Some(s) = e.downcast_ref::<String>() {
        s.clone()
    } else {
        "?".to_string()
    };
    m.replace(['\t', '\n'], " ").chars().take(120).collect()
}

/// Class of an error returned for `formulae`: the first stage of the public pipeline that
/// rejects the input when replayed (lexing, parsing, scoping/propositions, spare-variable
/// support, context labels).  The wording of the message is only used to tell the three
/// scoping/proposition causes apart (class `Prep` when it is not recognised), so a change of
/// wording alone is not reported as a different behaviour.  `Other` when no stage rejects.
fn classify_error(
    formulae: &[String],
    ext: bool,
    ctx: &SymbolicContext,
    graph: Option<&SymbolicAsyncGraph>,
    context_sets: &HashMap<String, GraphColoredVertices>,
    msg: &str,
) -> String {
    for f in formulae {
        let toks = if ext {
            try_tokenize_extended_formula(f.clone())
        } else {
            try_tokenize_formula(f.clone())
        };
        let toks = match toks {
            Err(_) => return "Lex".into(),
            Ok(t) => t,
        };
        let tree = match parse_hctl_tokens(&toks) {
            Err(_) => return "Parse".into(),
            Ok(t) => t,
        };
        let tree = match validate_props_and_rename_vars(tree, ctx) {
            Err(m) => {
                return if m.contains("quantified several times") {
                    "Requantified".into()
                } else if m.contains("is free") {
                    "FreeVar".into()
                } else if m.contains("no network variable") {
                    "UnknownProp".into()
                } else {
                    "Prep".into()
                };
            }
            Ok(t) => t,
        };
        if let Some(g) = graph {
            if !check_hctl_var_support(g, tree.clone()) {
                return "VarSupport".into();
            }
            if ext && validate_and_divide_wild_cards(&tree, context_sets).is_err() {
                return "MissingContext".into();
            }
        }
    }
    format!("Other:{}", msg.replace(['\t', '\n'], " "))
}

fn results_s(sets: &[GraphColoredVertices], order: &[BddVariable], expect_vars: u16, canonical: Option<&SymbolicAsyncGraph>) -> String {
    sets.iter()
        .map(|s| {
            if s.as_bdd().num_vars() != expect_vars {
                // not expressed in the expected symbolic encoding
                return "ENCODING".to_string();
            }
            if let Some(g0) = canonical {
                // must be usable together with sets of a graph built directly from the network
                let ok = catch_unwind(AssertUnwindSafe(|| {
                    let u = g0.mk_unit_colored_vertices();
                    // the same BDD wrapped by the graph built from the network must behave like the
                    // returned object (projections to states / colours; `==` also compares the order
                    // in which the contexts list their parameter variables, which legitimately differs)
                    let fresh = u.copy(s.as_bdd().clone());
                    let same_views = fresh.vertices().as_bdd() == s.vertices().as_bdd()
                        && fresh.colors().as_bdd() == s.colors().as_bdd();
                    same_views && (s.intersect(&u).as_bdd() == s.as_bdd() || !s.is_subset(&u))
                }));
                if !matches!(ok, Ok(true)) {
                    return "ENCODING".to_string();
                }
            }
            if depends_only_on(s.as_bdd(), order) {
                bits_of(s.as_bdd(), order)
            } else {
                "SUPPORT".to_string()
            }
        })
        .collect::<Vec<_>>()
        .join(",")
}

fn run_eval(fields: &[&str], cases: &mut impl Write, out: &mut impl Write) {
    // EVAL id mode k net ctxspec formulas
    let id = fields[1];
    let mode = fields[2];
    let k: usize = fields[3].parse().unwrap();
    let built = if mode.contains('N') {
        build_world_nonuniform(fields[4], k, true)
    } else if mode.contains('M') {
        build_world_nonuniform(fields[4], k, false)
    } else {
        build_world(fields[4], k)
    };
    let mut w = match built {
        Ok(w) => w,
        Err(e) => {
            writeln!(out, "{id} SKIP network:{}", e.replace(['\t', '\n'], " ")).unwrap();
            return;
        }
    };
    let mut state_restricted = false;
    if mode.contains('K') || mode.contains('S') {
        // a graph whose unit set the user has narrowed with SymbolicAsyncGraph::restrict:
        // 'K' to a pseudo-random set of colours (still a colour-only unit, as the model assumes),
        // 'S' to the states forward-reachable from one state (outside the model: implementation only)
        let seed = id.bytes().fold(7u64, |a, b| a.wrapping_mul(131).wrapping_add(b as u64));
        let unit = w.graph.mk_unit_colored_vertices();
        let narrowed = if mode.contains('K') {
            let mut rng = Rng::new(seed);
            let p = w.p();
            let mut keep = w.graph.mk_empty_colored_vertices();
            let mut remaining = w.graph.mk_unit_colors();
            let mut guard = 0;
            while !remaining.is_empty() && guard < (1usize << p.min(10)) {
                let c = remaining.pick_singleton();
                remaining = remaining.minus(&c);
                if rng.below(3) < 2 {
                    keep = keep.union(&unit.intersect_colors(&c));
                }
                guard += 1;
            }
            if keep.is_empty() { unit.clone() } else { keep }
        } else {
            state_restricted = true;
            let start = unit.pick_vertex();
            let mut reach = start.clone();
            loop {
                let next = reach.union(&w.graph.post(&reach));
                if next == reach {
                    break;
                }
                reach = next;
            }
            reach
        };
        w.graph = w.graph.restrict(&narrowed);
    }
    let ext = mode.contains('e');
    let sanitize = mode.contains('s');
    let formulas: Vec<String> = split_list(fields[6]).iter().map(|h| unhex(h)).collect();

    // context sets
    let mut context: HashMap<String, GraphColoredVertices> = HashMap::new();
    let mut ctx_model: Vec<String> = Vec::new();
    let mut model_ok = true;
    for item in split_list(fields[5]) {
        if item == "-" {
            continue;
        }
        let (label, spec) = item.split_once('=').unwrap();
        match catch_unwind(AssertUnwindSafe(|| make_context_set(&w, spec))) {
            Ok(Ok((set, bits))) => {
                context.insert(unhex(label), set);
                match bits {
                    Some(b) => ctx_model.push(format!("{label}:{b}")),
                    None => model_ok = false,
                }
            }
            Ok(Err(e)) => {
                writeln!(out, "{id} SKIP context:{}", e.replace(['\t', '\n'], " ")).unwrap();
                return;
            }
            Err(e) => {
                writeln!(out, "{id} SKIP context-panic:{}", panic_msg(e)).unwrap();
                return;
            }
        }
    }

    // the case line for the model
    let (names, upd, unit) = w.describe();
    if state_restricted {
        model_ok = false;
    }
    if model_ok {
        writeln!(
            cases,
            "EVAL\t{id}\t{mode}\t{}\t{}\t{k}\t{names}\t{upd}\t{unit}\t{}\t{}",
            w.p(),
            w.n(),
            if ctx_model.is_empty() { "-".to_string() } else { ctx_model.join(",") },
            fields[6]
        )
        .unwrap();
        if !mode.contains('n') {
            // the same case for the specification-level oracle
            writeln!(
                cases,
                "EVAL\t{id}#o\t{mode}o\t{}\t{}\t{k}\t{names}\t{upd}\t{unit}\t{}\t{}",
                w.p(),
                w.n(),
                if ctx_model.is_empty() { "-".to_string() } else { ctx_model.join(",") },
                fields[6]
            )
            .unwrap();
        }
    }

    writeln!(out, "{id} INFO {} {}", w.p(), w.n()).unwrap();

    // run the implementation
    let fs: Vec<&str> = formulas.iter().map(|s| s.as_str()).collect();
    let graph = &w.graph;
    let order: Vec<BddVariable> = if sanitize {
        // the canonical context may order its parameter variables differently:
        // match them with the model order by name
        let canon = graph.symbolic_context().as_canonical_context();
        let ext_set = graph.symbolic_context().bdd_variable_set();
        let can_set = canon.bdd_variable_set();
        w.order_pn
            .iter()
            .map(|v| can_set.var_by_name(ext_set.name_of(*v).as_str()).unwrap())
            .collect()
    } else {
        w.order_full.clone()
    };
    let repeat = if mode.contains('3') { 3 } else { 1 };
    let mut answers: Vec<String> = Vec::new();
    for round in 0..repeat {
        let with_observer = round == 1;
        let r = catch_unwind(AssertUnwindSafe(|| -> Result<Vec<GraphColoredVertices>, String> {
            let mut observed = 0usize;
            let mut cb = |_: &GraphColoredVertices, _: &str| {
                observed += 1;
            };
            if mode.contains('u') {
                return Ok(vec![model_check_formula_unsafe_ex(fs[0], graph)?]);
            }
            if mode.contains('c') {
                // evaluation context that marks no duplicates, driven through the public pieces
                let mut trees = Vec::new();
                let mut props = HashMap::new();
                let mut doms = HashMap::new();
                for f in &fs {
                    let t = if ext {
                        parse_and_minimize_extended_formula(graph.symbolic_context(), f)?
                    } else {
                        parse_and_minimize_hctl_formula(graph.symbolic_context(), f)?
                    };
                    if !check_hctl_var_support(graph, t.clone()) {
                        return Err("Graph does not support enough HCTL state variables".to_string());
                    }
                    if ext {
                        let (a, b) = validate_and_divide_wild_cards(&t, &context)?;
                        props.extend(a);
                        doms.extend(b);
                    }
                    trees.push(t);
                }
                let steady = compute_steady_states(graph);
                let mut res = Vec::new();
                for t in trees {
                    let mut ec = EvalContext::new(HashMap::new());
                    ec.extend_context_with_wild_cards(&props, &doms);
                    res.push(eval_node(t, graph, &mut ec, &steady, &mut cb));
                }
                if sanitize {
                    return Ok(res
                        .iter()
                        .map(|x| {
                            biodivine_hctl_model_checker::postprocessing::sanitizing::sanitize_colored_vertices(graph, x)
                        })
                        .collect());
                }
                return Ok(res);
            }
            if mode.contains('t') {
                // tree entry points on the preprocessed trees
                let mut trees = Vec::new();
                for f in &fs {
                    trees.push(parse_and_minimize_hctl_formula(graph.symbolic_context(), f)?);
                }
                if trees.len() == 1 {
                    // the single-tree entry points (with and without observer)
                    let t = trees.pop().unwrap();
                    return Ok(vec![match (sanitize, with_observer) {
                        (true, false) => model_check_tree(t, graph)?,
                        (false, false) => model_check_tree_dirty(t, graph)?,
                        (true, true) => _model_check_tree(t, graph, &mut cb)?,
                        (false, true) => _model_check_tree_dirty(t, graph, &mut cb)?,
                    }]);
                }
                return match (sanitize, with_observer) {
                    (true, false) => model_check_multiple_trees(trees, graph),
                    (false, false) => model_check_multiple_trees_dirty(trees, graph),
                    (true, true) => _model_check_multiple_trees(trees, graph, &mut cb),
                    (false, true) => _model_check_multiple_trees_dirty(trees, graph, &mut cb),
                };
            }
            if fs.len() == 1 {
                // one formula: the single-formula entry points, as a user would call them
                let f = fs[0];
                return Ok(vec![match (ext, sanitize, with_observer) {
                    (false, true, false) => model_check_formula(f, graph)?,
                    (false, false, false) => model_check_formula_dirty(f, graph)?,
                    (true, true, false) => model_check_extended_formula(f, graph, &context)?,
                    (true, false, false) => model_check_extended_formula_dirty(f, graph, &context)?,
                    (false, true, true) => _model_check_formula(f, graph, &mut cb)?,
                    (false, false, true) => _model_check_formula_dirty(f, graph, &mut cb)?,
                    (true, true, true) => _model_check_extended_formula(f, graph, &context, &mut cb)?,
                    (true, false, true) => _model_check_extended_formula_dirty(f, graph, &context, &mut cb)?,
                }]);
            }
            match (ext, sanitize, with_observer) {
                (false, true, false) => model_check_multiple_formulae(fs.clone(), graph),
                (false, false, false) => model_check_multiple_formulae_dirty(fs.clone(), graph),
                (true, true, false) => model_check_multiple_extended_formulae(fs.clone(), graph, &context),
                (true, false, false) => {
                    model_check_multiple_extended_formulae_dirty(fs.clone(), graph, &context)
                }
                (false, true, true) => _model_check_multiple_formulae(fs.clone(), graph, &mut cb),
                (false, false, true) => _model_check_multiple_formulae_dirty(fs.clone(), graph, &mut cb),
                (true, true, true) => {
                    _model_check_multiple_extended_formulae(fs.clone(), graph, &context, &mut cb)
                }
                (true, false, true) => {
                    _model_check_multiple_extended_formulae_dirty(fs.clone(), graph, &context, &mut cb)
                }
            }
        }));
        let ans = match r {
            Ok(Ok(sets)) => {
                let canon_graph = if sanitize { SymbolicAsyncGraph::new(&w.bn).ok() } else { None };
                let expect_vars = if sanitize {
                    graph.symbolic_context().as_canonical_context().bdd_variable_set().num_vars()
                } else {
                    graph.symbolic_context().bdd_variable_set().num_vars()
                };
                format!("OK {}", results_s(&sets, &order, expect_vars, canon_graph.as_ref()))
            }
            Ok(Err(m)) => format!(
                "ERR {}",
                classify_error(
                    &formulas,
                    ext,
                    graph.symbolic_context(),
                    Some(graph),
                    &context,
                    &m
                )
            ),
            Err(e) => format!("PANIC {}", panic_msg(e)),
        };
        answers.push(ans);
    }
    if answers.iter().any(|a| *a != answers[0]) {
        writeln!(out, "{id} NONDET {}", answers.join(" || ")).unwrap();
    } else {
        writeln!(out, "{id} {}", answers[0]).unwrap();
    }
    if !model_ok {
        writeln!(out, "{id} NOMODEL").unwrap();
    }
}

/// maximal nesting depth of bind / exists / forall
fn quant_depth(t: &HctlTreeNode) -> usize {
    match &t.node_type {
        NodeType::Terminal(_) => 0,
        NodeType::Unary(_, c) => quant_depth(c),
        NodeType::Binary(_, l, r) => std::cmp::max(quant_depth(l), quant_depth(r)),
        NodeType::Hybrid(op, _, _, c) => {
            quant_depth(c) + if matches!(op, HybridOp::Jump) { 0 } else { 1 }
        }
    }
}

fn ctx_with_props(props: &[String]) -> Result<SymbolicContext, String> {
    let rg = RegulatoryGraph::new(props.to_vec());
    let bn = BooleanNetwork::new(rg);
    // as the model-checking entry points see it: two spare symbolic copies of every variable
    // (their BDD variables are named <var>_extra_<i>; such names are NOT network variables)
    let mut extra = HashMap::new();
    for v in bn.variables() {
        extra.insert(v, 2u16);
    }
    SymbolicContext::with_extra_state_variables(&bn, &extra)
}

fn run_front(fields: &[&str], cases: &mut impl Write, out: &mut impl Write, line: &str) {
    let kind = fields[0];
    let id = fields[1];
    let r = catch_unwind(AssertUnwindSafe(|| -> Result<String, String> {
        match kind {
            "TOK" => {
                let s = unhex(fields[3]);
                let r = if fields[2] == "1" {
                    try_tokenize_extended_formula(s)
                } else {
                    try_tokenize_formula(s)
                };
                match r {
                    Ok(ts) => Ok(ts.iter().map(token_s).collect::<Vec<_>>().join(" ")),
                    Err(_) => Err("Lex".into()),
                }
            }
            "PARSE" => {
                let s = unhex(fields[3]);
                let ext = fields[2] == "1";
                let toks = if ext {
                    try_tokenize_extended_formula(s.clone())
                } else {
                    try_tokenize_formula(s.clone())
                };
                let direct = if ext {
                    parse_extended_formula(s.as_str())
                } else {
                    parse_hctl_formula(s.as_str())
                };
                match (toks, direct) {
                    (Err(_), Err(_)) => Err("Lex".into()),
                    (Ok(_), Err(_)) => Err("Parse".into()),
                    (Ok(_), Ok(t)) => Ok(tree_s(&t)),
                    (Err(_), Ok(_)) => Err("Other:tokenizer and parser disagree".into()),
                }
            }
            "PREP" => {
                let ext = fields[2] == "1";
                let props: Vec<String> = split_list(fields[3]).iter().map(|h| unhex(h)).collect();
                let ctx = ctx_with_props(&props)?;
                let s = unhex(fields[4]);
                let r = if ext {
                    parse_and_minimize_extended_formula(&ctx, s.as_str())
                } else {
                    parse_and_minimize_hctl_formula(&ctx, s.as_str())
                };
                match r {
                    Ok(t) => {
                        // the crate's own count of distinct variable names must be the nesting depth
                        let names = collect_unique_hctl_vars(t.clone()).len();
                        let depth = quant_depth(&t);
                        if names != depth {
                            Err(format!("Other:collect_unique_hctl_vars reports {names} names, nesting depth is {depth}"))
                        } else {
                            Ok(tree_s(&t))
                        }
                    }
                    Err(m) => Err(classify_error(&[s], ext, &ctx, None, &HashMap::new(), &m)),
                }
            }
            "DUPS" => {
                let ext = fields[2] == "1";
                let props: Vec<String> = split_list(fields[3]).iter().map(|h| unhex(h)).collect();
                let ctx = ctx_with_props(&props)?;
                let mut trees = Vec::new();
                for h in split_list(fields[4]) {
                    let s = unhex(h);
                    let r = if ext {
                        parse_and_minimize_extended_formula(&ctx, s.as_str())
                    } else {
                        parse_and_minimize_hctl_formula(&ctx, s.as_str())
                    };
                    match r {
                        Ok(t) => trees.push(t),
                        Err(m) => {
                            return Err(classify_error(&[s], ext, &ctx, None, &HashMap::new(), &m))
                        }
                    }
                }
                let d = mark_duplicates_canonized_multiple(&trees);
                let mut items: Vec<String> = d
                    .iter()
                    .map(|((c, doms), cnt)| {
                        let ds: Vec<String> = doms
                            .iter()
                            .map(|(v, d)| format!("{}={}", hex(v), opt_s(d)))
                            .collect();
                        format!("{}[{}]#{}", hex(c), ds.join(";"), cnt)
                    })
                    .collect();
                items.sort();
                Ok(items.join(","))
            }
            #[cfg(hctl_verif)]
            "CANON" => {
                use biodivine_hctl_model_checker::evaluation::verif_hooks::*;
                let s = unhex(fields[2]);
                let (c, ren) = get_canonical_and_renaming(s.clone());
                let c2 = get_canonical(s);
                if c != c2 {
                    return Err("Other:get_canonical differs".into());
                }
                let mut r: Vec<String> = ren
                    .iter()
                    .map(|(a, b)| format!("{}>{}", hex(a), hex(b)))
                    .collect();
                r.sort();
                Ok(format!("{} {}", hex(&c), r.join(",")))
            }
            _ => Err(format!("Other:unknown request {kind}")),
        }
    }));
    writeln!(cases, "{line}").unwrap();
    match r {
        Ok(Ok(s)) => writeln!(out, "{id} OK {s}").unwrap(),
        Ok(Err(e)) => writeln!(out, "{id} ERR {e}").unwrap(),
        Err(e) => writeln!(out, "{id} PANIC {}", panic_msg(e)).unwrap(),
    }
}

/// Build a tree through the public constructors from an S-expression.
fn build_tree(toks: &[&str], pos: &mut usize) -> Result<HctlTreeNode, String> {
    if toks.get(*pos) != Some(&"(") {
        return Err("expected (".into());
    }
    *pos += 1;
    let kind = toks[*pos];
    *pos += 1;
    let node = match kind {
        "T" => {
            let a = toks[*pos];
            *pos += 1;
            if a == "1" {
                HctlTreeNode::mk_constant(true)
            } else if a == "0" {
                HctlTreeNode::mk_constant(false)
            } else {
                let (k, nm) = a.split_once(':').ok_or("bad atom")?;
                let nm = unhex(nm);
                match k {
                    "P" => HctlTreeNode::mk_proposition(&nm),
                    "V" => HctlTreeNode::mk_variable(&nm),
                    "W" => HctlTreeNode::mk_wild_card(&nm),
                    _ => return Err("bad atom kind".into()),
                }
            }
        }
        "U" => {
            let op = match toks[*pos] {
                "Not" => UnaryOp::Not,
                "EX" => UnaryOp::EX,
                "AX" => UnaryOp::AX,
                "EF" => UnaryOp::EF,
                "AF" => UnaryOp::AF,
                "EG" => UnaryOp::EG,
                "AG" => UnaryOp::AG,
                _ => return Err("bad unary".into()),
            };
            *pos += 1;
            let c = build_tree(toks, pos)?;
            HctlTreeNode::mk_unary(c, op)
        }
        "B" => {
            let op = match toks[*pos] {
                "And" => BinaryOp::And,
                "Or" => BinaryOp::Or,
                "Xor" => BinaryOp::Xor,
                "Imp" => BinaryOp::Imp,
                "Iff" => BinaryOp::Iff,
                "EU" => BinaryOp::EU,
                "AU" => BinaryOp::AU,
                "EW" => BinaryOp::EW,
                "AW" => BinaryOp::AW,
                _ => return Err("bad binary".into()),
            };
            *pos += 1;
            let l = build_tree(toks, pos)?;
            let r = build_tree(toks, pos)?;
            HctlTreeNode::mk_binary(l, r, op)
        }
        "H" => {
            let op = match toks[*pos] {
                "Bind" => HybridOp::Bind,
                "Jump" => HybridOp::Jump,
                "Exists" => HybridOp::Exists,
                "Forall" => HybridOp::Forall,
                _ => return Err("bad hybrid".into()),
            };
            let x = unhex(toks[*pos + 1]);
            let d = if toks[*pos + 2] == "_" { None } else { Some(unhex(toks[*pos + 2])) };
            *pos += 3;
            let c = build_tree(toks, pos)?;
            HctlTreeNode::mk_hybrid(c, &x, d, op)
        }
        _ => return Err("bad node".into()),
    };
    if toks.get(*pos) != Some(&")") {
        return Err("expected )".into());
    }
    *pos += 1;
    Ok(node)
}

/// TREE id sexpr renderhex: build through the constructors, print, re-parse, compare.
fn run_tree(fields: &[&str], cases: &mut impl Write, out: &mut impl Write) {
    let id = fields[1];
    writeln!(cases, "PARSE\t{id}\t1\t{}", fields[3]).unwrap();
    let spaced = fields[2].replace('(', " ( ").replace(')', " ) ");
    let toks: Vec<&str> = spaced.split_whitespace().collect();
    let r = catch_unwind(AssertUnwindSafe(|| -> Result<String, String> {
        let mut pos = 0;
        let t = build_tree(&toks, &mut pos)?;
        let text = t.to_string();
        match parse_extended_formula(text.as_str()) {
            Ok(t2) => {
                if t2 == t {
                    Ok(tree_s(&t))
                } else {
                    Err(format!("RoundTrip:{}", hex(&t2.to_string())))
                }
            }
            Err(_) => Err("RoundTripRejected".into()),
        }
    }));
    match r {
        Ok(Ok(s)) => writeln!(out, "{id} OK {s}").unwrap(),
        Ok(Err(e)) => writeln!(out, "{id} ERR {e}").unwrap(),
        Err(e) => writeln!(out, "{id} PANIC {}", panic_msg(e)).unwrap(),
    }
}

/// Start-up assertion: the classification table of the model agrees with Rust's `char`.
fn check_char_tables() -> Result<(), String> {
    let alnum = [233u32, 955, 1635, 189, 1078];
    let not_alnum = [8364u32, 8594, 8704, 160, 8195, 133, 183];
    for c in alnum {
        if !char::from_u32(c).unwrap().is_alphanumeric() {
            return Err(format!("U+{c:04X} expected alphanumeric"));
        }
    }
    for c in not_alnum {
        if char::from_u32(c).unwrap().is_alphanumeric() {
            return Err(format!("U+{c:04X} expected not alphanumeric"));
        }
    }
    // White_Space table of the model
    let ws: Vec<u32> = (9..=13)
        .chain([32, 133, 160, 5760])
        .chain(8192..=8202)
        .chain([8232, 8233, 8239, 8287, 12288])
        .collect();
    for c in 0..0x3100u32 {
        if let Some(ch) = char::from_u32(c) {
            if ch.is_whitespace() != ws.contains(&c) {
                return Err(format!("U+{c:04X} whitespace classification differs"));
            }
            if c < 128 {
                let a = ch.is_ascii_alphanumeric();
                if ch.is_alphanumeric() != a {
                    return Err(format!("U+{c:04X} ascii alnum differs"));
                }
            }
        }
    }
    Ok(())
}

fn main() {
    let args: Vec<String> = std::env::args().collect();
    if args.len() < 3 {
        eprintln!("usage: hctl-harness <request file> <out prefix>");
        std::process::exit(2);
    }
    std::panic::set_hook(Box::new(|_| {}));
    if let Err(e) = check_char_tables() {
        println!("CHAR-TABLE-MISMATCH {e}");
        std::process::exit(3);
    }
    let input = std::io::BufReader::new(std::fs::File::open(&args[1]).unwrap());
    let mut cases = BufWriter::new(std::fs::File::create(format!("{}.cases", args[2])).unwrap());
    let mut out = BufWriter::new(std::fs::File::create(format!("{}.impl", args[2])).unwrap());
    for line in input.lines() {
        let line = line.unwrap();
        if line.is_empty() {
            continue;
        }
        let fields: Vec<&str> = line.split('\t').collect();
        match fields[0] {
            "EVAL" => run_eval(&fields, &mut cases, &mut out),
            "TOK" | "PARSE" | "PREP" | "DUPS" | "CANON" => {
                run_front(&fields, &mut cases, &mut out, &line)
            }
            "TREE" => run_tree(&fields, &mut cases, &mut out),
            _ => shell::run(&fields, &mut cases, &mut out, &line),
        }
        // answers are visible as soon as they exist: a request that never returns is identified
        // by the checker as the first one without an answer
        out.flush().unwrap();
    }
    cases.flush().unwrap();
    out.flush().unwrap();
    let mut s = String::new();
    write!(s, "done").unwrap();
    println!("{s}");
}
