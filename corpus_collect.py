#!/usr/bin/env python3
"""Build corpus/<prop>/: for every stored seeded change, the (shrunk) failing inputs that the quick
check finds on the changed tree and that can be decided stand-alone -- kept only if replaying them
reports a violation on the changed tree and nothing on the unchanged tree.  Patches /repo while it
runs (restored afterwards): run it only when no other check is running."""
import glob, json, os, shutil, subprocess, sys
V = os.path.dirname(os.path.abspath(__file__))


def sh(cmd):
    return subprocess.run(cmd, shell=True, cwd=V, stdout=subprocess.PIPE, stderr=subprocess.STDOUT, text=True).stdout


def restore():
    sh("git -C /repo checkout -- .")


def main():
    pats = sys.argv[1:] or ["C*"]
    seeds = sorted(d for p in pats for d in glob.glob(os.path.join(V, "seeded", p)))
    try:
        for d in seeds:
            name = os.path.basename(d)
            prop = name.split("-")[0]
            restore()
            if "error" in sh("git -C /repo apply %s/patch.diff 2>&1" % d):
                print(name, "patch does not apply")
                continue
            sh("./check.py %s --tier quick --skip-proofs" % prop)
            cands = []
            for f in (sorted(glob.glob(os.path.join(V, "replays", prop + "-fail-*.json")))[:3]
                      + glob.glob(os.path.join(V, "replays", prop + "-unproved.json"))):
                tmp = "/tmp/corpus-cand-%s-%d.json" % (name, len(cands))
                shutil.copy(f, tmp)
                cands.append(tmp)
            kept = 0
            good = []
            for c in cands:
                out = sh("./check.py %s --replay %s --skip-proofs" % (prop, c))
                if "VIOLATION" in out:
                    good.append(c)
            restore()
            for c in good:
                out = sh("./check.py %s --replay %s --skip-proofs" % (prop, c))
                if "VIOLATION" not in out:
                    os.makedirs(os.path.join(V, "corpus", prop), exist_ok=True)
                    rp = json.load(open(c))
                    keep = {"property": prop, "from_seed": name,
                            "why_on_seeded_tree": rp.get("why") or rp.get("theorem_or_correspondence"),
                            "input": rp.get("input"), "cases": rp.get("cases")}
                    json.dump(keep, open(os.path.join(V, "corpus", prop, "%s-%d.json" % (name, kept)), "w"), indent=1)
                    kept += 1
            for c in cands:
                os.remove(c)
            print(name, "candidates", len(cands), "kept", kept, flush=True)
    finally:
        restore()


if __name__ == "__main__":
    main()
