#!/bin/bash
# Regression of the checks against the seeded changes: every seeded/<id>/patch.diff must make
# the quick check of property <id> report a violation (the repository is restored afterwards).
cd /verif
trap 'git -C /repo checkout -- .' EXIT INT TERM
for d in seeded/C*/; do
  id=$(basename $d)
  git -C /repo checkout -- . ; git -C /repo apply /verif/$d/patch.diff || { echo "$id PATCH-DOES-NOT-APPLY"; continue; }
  out=$(timeout 900 ./check.py $id --tier quick --skip-proofs 2>&1 | grep -c "^VIOLATION")
  git -C /repo checkout -- .
  if [ "$out" -ge 1 ]; then echo "$id caught ($out)"; else echo "$id MISSED"; fi
done
