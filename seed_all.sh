#!/bin/bash
# Regression of the checks against the seeded changes: every seeded/<id>/patch.diff must make
# the quick check of property <id> report a violation (the repository is restored afterwards).
cd /verif
trap 'git -C /repo checkout -- .' EXIT
trap 'git -C /repo checkout -- .; exit 130' INT TERM
pat=${1:-C*}   # optional glob, e.g. ./seed_all.sh 'C*-r2'
for d in seeded/$pat/; do
  name=$(basename $d); id=${name%%-*}
  git -C /repo checkout -- . ; git -C /repo apply /verif/$d/patch.diff || { echo "$name PATCH-DOES-NOT-APPLY"; continue; }
  out=$(timeout 900 ./check.py $id --tier quick --skip-proofs 2>&1 | grep -c "^VIOLATION")
  git -C /repo checkout -- .
  if [ "$out" -ge 1 ]; then echo "$name caught ($out)"; else echo "$name MISSED"; fi
done
