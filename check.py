#!/usr/bin/env python3
"""check.py <Cxx> [--tier quick|thorough] [--seed N] [--replay file]

Decides one property: (a) re-checks the Coq theorems of coq/theories/Properties/<Cxx>.v
(full build, forbidden-construct grep, Print Assumptions against the allow-list);
(b) rebuilds the harness against /repo's current working tree and runs the correspondence
check implementation <-> extracted model <-> specification-level oracle;
(c) writes evidence/<Cxx>.json.  Exit 0 iff no VIOLATION line was printed."""
import argparse
import json
import os
import sys
import time
sys.setrecursionlimit(100000)

sys.path.insert(0, os.path.dirname(os.path.abspath(__file__)))
from vlib import core, gen, props, run  # noqa: E402
from vlib import front, shellprops       # noqa: E402

TRUSTED_BASE = [
    "Coq 8.16.1 kernel (coqc); vm_compute in Examples/witness lemmas only; no native_compute",
    "axioms: none (Print Assumptions of every property theorem: Closed under the global context)",
    "extraction: ExtrOcamlBasic only (Extract Inductive bool, option, list, prod, unit, sumbool, sumor; no Extract Constant); OCaml 4.13.1; hand-written ocaml/driver.ml",
    "correspondence check: Rust harness (harness/), vlib/*.py generators and comparison -- differential testing, bounds the tie between model and code",
    "modelled, not verified: biodivine-lib-bdd, biodivine-lib-param-bn (symbolic encoding, valid colours, var_pre, FixedPoints::symbolic, transfer_from), biodivine-algo-bdd-scc (attractors), zip, clap, std",
]


def eval_family(gens, judges=()):
    def runner(chk):
        for g in gens:
            g(chk)
        chk.execute()
        props.judge_all(chk)
        for j in judges:
            j(chk)
    return runner


REGISTRY = {
    "C01": eval_family([props.gen_C01, props.gen_C01_wide, props.gen_C01_names], [shellprops.judge_shell]),
    "C02": eval_family([props.gen_C02, props.gen_C02_wide, props.gen_C02_bigdomain, props.gen_C04_domains], [props.judge_pairs, shellprops.judge_shell]),
    "C03": eval_family([props.gen_C03, props.gen_C03_big], [shellprops.judge_shell]),
    "C04": eval_family([props.gen_C04, props.long_wildcard_batch, props.gen_C04_domains], [props.judge_groups]),
    "C10": eval_family([props.gen_C10, props.gen_bench_subst, props.gen_C10_patterns], [props.judge_pairs, props.judge_groups, shellprops.judge_shell]),
    "C11": eval_family([props.gen_C11, props.gen_C11_big, props.gen_bench_laws, props.gen_library_coincidence, props.gen_C11_wide, props.gen_C11_many], [props.judge_laws, shellprops.judge_shell]),
    "C12": eval_family([props.gen_C12, props.gen_bench_patterns, props.gen_C12_wide, props.gen_C12_unsafe], [props.judge_pairs, props.judge_laws, shellprops.judge_shell]),
    "C13": eval_family([props.gen_C13, props.gen_C13_wide, shellprops.gen_cli_single_operator_files], [props.judge_laws, shellprops.judge_shell]),
    "C15": eval_family([props.gen_C15, props.gen_C15_batches, props.gen_C15_names, props.gen_C15_narrowed, props.gen_C15_nonuniform], [props.judge_groups, props.judge_raw_twins]),
    "C18": eval_family([props.gen_C18], [props.judge_pairs, shellprops.judge_shell]),
}
REGISTRY.update(front.REGISTRY)
REGISTRY.update(shellprops.REGISTRY)


def describe_case(case):
    if case["kind"] == "EVAL":
        return {"network": case["net"], "netname": case.get("netname"), "k": case["k"], "mode": case["mode"],
                "context": case["ctx"], "formulae": [core.Check.ftext(f) for f in case["formulas"]],
                "tag": case.get("tag")}
    f = case["fields"]
    def lst(x):
        return [gen.unhx(y) for y in x.split(",")] if x else []
    k = case["kind"]
    if k in ("PARSE", "TOK"):
        d = {"extended": f[0] == "1", "text": gen.unhx(f[1])}
    elif k == "PREP":
        d = {"extended": f[0] == "1", "propositions": lst(f[1]), "text": gen.unhx(f[2])}
    elif k == "DUPS":
        d = {"extended": f[0] == "1", "propositions": lst(f[1]), "formulae": lst(f[2])}
    elif k == "CANON":
        d = {"text": gen.unhx(f[0])}
    elif k == "TREE":
        d = {"sexpr": f[0], "text": gen.unhx(f[1])}
    elif k == "SLICE":
        d = {"k": f[0], "network": gen.unhx(f[1][2:]), "formulae": lst(f[2])}
    elif k == "ARCH":
        d = {"k": f[0], "network": gen.unhx(f[1][2:]), "sets": f[2], "formulae": lst(f[3]), "usage": lst(f[4])}
    elif k == "CLI":
        d = {"format": f[0], "model": gen.unhx(f[1]), "formula_file": gen.unhx(f[2]), "print_option": f[3], "context": f[4]}
    elif k == "CONV":
        d = {"network": gen.unhx(f[0])}
    elif k == "LIBR":
        d = {"network": gen.unhx(f[0][2:])[:400], "s": gen.unhx(f[1]), "t": gen.unhx(f[2])}
    elif k == "LOADF":
        d = {"file": gen.unhx(f[0])}
    elif k == "LABEL":
        d = {"label": gen.unhx(f[0])}
    elif k == "CONVM":
        d = {"network": gen.unhx(f[0])}
    elif k == "EQV":
        d = {"k": f[0], "network": gen.unhx(f[1][2:])[:400], "context": f[2][:300], "formula_pairs": lst(f[3])}
    else:
        d = {"fields": f}
    d.update({"kind": k, "tag": case.get("tag")})
    return d


FRONT_KINDS = ("TOK", "PARSE", "PREP", "DUPS", "CANON", "TREE")


def tuplify(x):
    return tuple(tuplify(y) for y in x) if isinstance(x, (list, tuple)) else x


def load_cases(chk, path, prefix):
    """cases of a replay / corpus file into `chk` (formula ASTs and meta data back to tuples)"""
    rp = json.load(open(path))
    ids = []
    for c in rp.get("cases", []):
        c = dict(c)
        for k in ("pair", "group", "prep_group", "perm", "equal_pairs", "subset_triples"):
            c.pop(k, None)
        if "formulas" in c:
            c["formulas"] = [f if isinstance(f, str) else tuplify(f) for f in c["formulas"]]
        if "ctx" in c:
            c["ctx"] = [tuple(x) for x in c["ctx"]]
        if isinstance(c.get("meta"), dict):
            c["meta"] = {k: tuplify(v) if k in ("t", "fs") else v for k, v in c["meta"].items()}
        c["id"] = chk.new_id(prefix)
        c["origin"] = os.path.basename(path)
        chk.cases[c["id"]] = c
        ids.append(c["id"])
    return ids


def judge_generic(chk):
    """property-independent judgement of stand-alone cases (replays, corpus): specification and tie
    for EVAL cases, implementation against model for front-end requests, OK/ERR for shell requests"""
    props.judge_all(chk)
    for j in (props.judge_pairs, props.judge_groups, props.judge_laws):
        j(chk)
    saved = dict(chk.cases)
    try:
        chk.cases = {k: v for k, v in saved.items() if v["kind"] in FRONT_KINDS}
        front.judge_front(chk)
    finally:
        chk.cases = saved
    shellprops.judge_shell(chk)
    shellprops.judge_model_tie(chk)
    shellprops.judge_slices(chk)


def run_corpus(prop, args):
    """inputs on which an earlier (seeded or repaired) version of the code violated the property:
    they run first in every check (corpus/<prop>/*.json)"""
    import glob
    files = sorted(glob.glob(os.path.join(run.VERIF, "corpus", prop, "*.json")))
    if not files:
        return None
    chk = core.Check(prop, args.tier, args.seed)
    chk.workdir = chk.workdir + "-corpus"
    for f in files:
        load_cases(chk, f, "k")
    chk.execute()
    judge_generic(chk)
    return chk


def main():
    ap = argparse.ArgumentParser()
    ap.add_argument("prop")
    ap.add_argument("--tier", default=os.environ.get("VERIF_TIER", "quick"))
    ap.add_argument("--seed", type=int, default=int(os.environ.get("VERIF_SEED", "1")))
    ap.add_argument("--replay")
    ap.add_argument("--skip-proofs", action="store_true")
    args = ap.parse_args()
    prop = args.prop
    if prop not in REGISTRY:
        print("unknown property", prop)
        return 2
    t0 = time.time()
    # replays of earlier runs of this property are stale
    import glob
    for old in glob.glob(os.path.join(run.VERIF, "replays", prop + "-*.json")):
        if not args.replay or os.path.abspath(old) != os.path.abspath(args.replay):
            os.remove(old)
    run.SHARD_TIMEOUT[0] = int(os.environ.get("VERIF_SHARD_TIMEOUT", "900" if args.tier == "quick" else "3300"))
    chk = core.Check(prop, args.tier, args.seed)
    violations_out = []
    build_broken = []

    # ---- (a) proofs
    if args.skip_proofs:
        proof = {"ok": True, "obligations": 0, "discharged": 0, "theorems": [], "axioms": [], "problems": [], "cmd": "skipped"}
    else:
        proof = run.check_proofs(prop, args.tier)
    print("[proofs] %s: %d theorem(s) %s %s" % (prop, proof["obligations"], "re-checked" if proof["ok"] else "NOT checked",
                                               "; ".join(proof["problems"])[:600]))
    if not os.path.exists(run.DRIVER):
        rc, out = run.build_model()
    # ---- (b) harness against the current working tree
    rc, out = run.build_harness()
    if rc != 0:
        build_broken.append("harness does not build against /repo's working tree: " + out[-1200:])
        print("[build] harness build failed")
    if prop in shellprops.NEEDS_BINS:
        rc2, out2 = run.build_bins()
        if rc2 != 0:
            build_broken.append("binaries of /repo do not build: " + out2[-1200:])

    # ---- (c) correspondence
    if not build_broken:
        if args.replay:
            load_cases(chk, args.replay, "r")
            chk.execute()
            judge_generic(chk)
        else:
            corpus = run_corpus(prop, args)
            REGISTRY[prop](chk)
            if corpus is not None:
                chk.violations = corpus.violations + chk.violations
                chk.tie_broken = corpus.tie_broken + chk.tie_broken
                chk.infra_errors += corpus.infra_errors
                for cid, case in corpus.cases.items():
                    case = dict(case, tag="corpus")
                    chk.cases[cid] = case
                chk.results.update(corpus.results)
                chk.stats["evaluations"] += corpus.stats["evaluations"]
                chk.notes.append("%d corpus cases from corpus/%s ran first" % (len(corpus.cases), prop))

    # ---- decide
    for hid in run.HUNG:
        if hid in chk.cases:
            chk.violations.append({"id": hid, "why": "the implementation did not return within %d s on this input "
                                   "(every property presupposes an answer)" % run.SHARD_TIMEOUT[0],
                                   "case": chk.cases[hid], "answers": {}, "noshrink": True})
    if chk.infra_errors:
        print("[infra] " + " | ".join(chk.infra_errors)[:1500])
    seen = set()
    for entry in chk.violations:
        key = entry["why"].split("(")[0][:60]
        if key in seen and len(violations_out) >= 1:
            continue
        seen.add(key)
        if len(violations_out) >= 5:
            break
        entry["kind"] = "violation"
        small = chk.shrink(entry, lambda cid: chk.judge_eval(cid)) if not entry.get("noshrink") and entry["case"]["kind"] == "EVAL" and "pair" not in entry["case"] and "group" not in entry["case"] and "equal_pairs" not in entry["case"] and "subset_triples" not in entry["case"] else entry
        path = run.write_replay(prop, "fail-%d" % (len(violations_out) + 1), {
            "property": prop, "kind": "failing-input", "seed": args.seed, "tier": args.tier,
            "why": small["why"], "input": describe_case(small["case"]),
            "answers": small.get("answers"), "cases": [strip_case(small["case"])],
            "original_input": describe_case(entry["case"]),
            "how_to_run": "./check.py %s --replay <this file>" % prop,
        })
        violations_out.append("VIOLATION property=%s replay=%s" % (prop, path))
    no_input = []
    if chk.tie_broken and not violations_out:
        no_input.append(("correspondence implementation<->model broken on %d case(s)" % len(chk.tie_broken),
                         [{"why": e["why"], "input": describe_case(e["case"]), "answers": e["answers"]}
                          for e in chk.tie_broken[:5]]))
    if not proof["ok"]:
        no_input.append(("proof obligations of Properties/%s.v no longer check: %s" % (prop, "; ".join(proof["problems"])[:800]), []))
    if build_broken:
        no_input.append(("build broken: " + build_broken[0][:800], []))
    if chk.infra_errors and not violations_out:
        no_input.append(("check infrastructure error: " + chk.infra_errors[0][:400], []))
    if no_input and not violations_out:
        path = run.write_replay(prop, "unproved", {
            "property": prop, "kind": "no-failing-input-found", "seed": args.seed, "tier": args.tier,
            "theorem_or_correspondence": [x[0] for x in no_input],
            "details": [x[1] for x in no_input],
            "cases": [strip_case(e["case"]) for e in chk.tie_broken[:5]],
            "searched": "every generated case of this run was also compared with the specification-level oracle; none contradicted the property",
        })
        violations_out.append("VIOLATION property=%s replay=%s no-failing-input-found" % (prop, path))

    for kid, hits in chk.known_hits.items():
        kf = [k for k in chk.known if k["id"] == kid][0]
        print("KNOWN-FINDING: property=%s %s (%d case(s) of this run)" % (prop, kf["what"], len(hits)))
    for line in violations_out:
        print(line)

    # ---- evidence
    wall = time.time() - t0
    samples = []
    for cid, case in list(chk.cases.items())[:400:57]:
        d = describe_case(case)
        a = chk.results.get(cid, {}).get("impl", {})
        d["implementation_answer"] = (a.get("status"), (a.get("payload") or "")[:80])
        samples.append(d)
    tags = {}
    for case in chk.cases.values():
        tags[case.get("tag", "")] = tags.get(case.get("tag", ""), 0) + 1
    statuses = {}
    for cid, r in chk.results.items():
        st = r.get("impl", {}).get("status", "none")
        statuses[st] = statuses.get(st, 0) + 1
    coverage = {
        "obligations": max(proof["obligations"], 0),
        "discharged": proof["discharged"],
        "checker_cmd": proof["cmd"] or "cd /verif/coq && make -j16",
        "trusted_base": TRUSTED_BASE,
        "theorems": proof["theorems"],
        "axioms_reported_by_print_assumptions": proof["axioms"],
        "coqchk": proof.get("coqchk", "run in the thorough tier only"),
        "evaluations": chk.stats["evaluations"],
        "formula_evaluations": sum(len(c.get("formulas", [1])) for c in chk.cases.values()),
        "distinct_nontrivial": len(chk.nontrivial),
        "rule": "cases are generated by vlib/props.py|front.py|shellprops.py from the seed; an EVAL case is non-trivial when the implementation's result is neither empty nor full; a front-end case when it is accepted; distinct by (network, k, mode, context, formula, result prefix)",
        "samples": samples or [{"note": "no correspondence cases (build broken)"}],
        "input_distribution": {"by_tag": tags, "by_implementation_status": statuses,
                               "skipped": {k: v for k, v in chk.stats.items() if k.startswith("skipped")}},
        "tie_broken_cases": len(chk.tie_broken),
        "known_finding_cases": {k: len(v) for k, v in chk.known_hits.items()},
        "notes": chk.notes,
    }
    has_thm = run.has_theorem_file(prop)
    if not has_thm:
        coverage.pop("obligations")
        coverage.pop("discharged")
    elif coverage["obligations"] == 0:
        # the proofs did not get as far as being counted (build broken): all obligations are open
        coverage["obligations"] = run.count_theorems(prop)
        coverage["discharged"] = 0
    run.write_evidence(prop, args.tier, args.seed, wall, coverage, len(violations_out),
                       ["the Coq model mirrors the code by hand; the tie is the differential check above",
                        "external libraries are modelled by their specification (see trusted_base)"],
                       level="proof" if has_thm else "exploration", official=not args.skip_proofs)
    print("[done] %s tier=%s cases=%d nontrivial=%d violations=%d wall=%.1fs" %
          (prop, args.tier, len(chk.cases), len(chk.nontrivial), len(violations_out), wall))
    return 1 if violations_out else 0


def strip_case(case):
    c = {k: v for k, v in case.items() if k not in ("group",)}
    return c


if __name__ == "__main__":
    try:
        rc = main()
    except SystemExit:
        raise
    except BaseException as ex:      # an internal error of the check is never a silent pass
        import traceback
        tb = traceback.format_exc()
        prop = sys.argv[1] if len(sys.argv) > 1 else "?"
        path = run.write_replay(prop, "unproved", {
            "property": prop, "kind": "no-failing-input-found",
            "theorem_or_correspondence": ["the check itself failed: %r" % (ex,)], "details": [tb[-3000:]], "cases": []})
        print(tb[-1500:])
        print("VIOLATION property=%s replay=%s no-failing-input-found" % (prop, path))
        rc = 1
    sys.exit(rc)
